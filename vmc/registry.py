"""Which properties are claimed, at which level, and which are not (kept in sync with DESIGN.md)."""
CLAIMED = {}
NOT_APPLICABLE = {}


def claim(pid, text, note, technique, ref):
    CLAIMED[pid] = dict(text=text, note=note, technique=technique, ref=ref)


ALL = ['C%02d' % i for i in range(1, 21)]

claim('C06',
      'Every event schedule (multisets of <=2 quick / <=3 thorough events from a toggle/alter/fault alphabet x a time '
      'lattice containing t0, grid, off-grid, eps-neighbour, tf, beyond-tf, negative and >10 s times) x step '
      'configurations x resume splits is run through the real TDS loop and compared with an independent fold of the '
      'schedule; plus every scripted convergence pattern with <=2 (3) deviations from "converged fast" at the step seam; '
      'plus time-series updates (1..2 TimeSeries devices, all row-time sets of size <=2 (3) from the lattice, equal and '
      'unequal row counts, disabled devices, coincident Toggle, resume splits) against the data rows themselves; pairs also draw from four '
      'Faults with shared start / clearing times, and a custom event (TDS.custom_event raised by a perturbation function) is placed at / next to / away from scheduled events. '
      'Exhaustive within those bounds, on the implementation itself.',
      'Trusts: the tiny systems are representative of the dispatch logic (which is system-independent); event times '
      'closer than 2*eps are outside the alphabet; observation wrappers on timer callbacks and callpert do not perturb the run.',
      'bounded exhaustive schedule enumeration + deviation-bounded scripted-environment exploration of the real loop',
      'DESIGN.md#c06')

claim('C12',
      'All sub-multigraphs of K_n (n<=4 quick, <=5 thorough; plus a parallel line and a jumper, i.e. all 2^L on/off '
      'patterns) x all enable patterns of three slack generators are fed to the real System.connectivity and compared '
      'with union-find components; every single-island-plus-isolated pattern goes through the real power flow and is '
      'compared with the reduced network; every bus subset (<=2 / <=3) is switched off through each public call and '
      'the set of devices that went off is compared with the attachment map; all pairs (triples) of line toggles in a '
      'static simulation. A structured family reaches 6 (7) buses: every set partition of the buses realised as islands (path or star inside each block) x all slack patterns.'
      ' Switchings of the events part are made by Toggle devices or by a perturbation function raising TDS.custom_event (alone and mixed); the run must succeed.',
      'Trusts the union-find reference and the hand-written attachment map of the 4-bus test system; Fortescue '
      'devices are not generated; switching a bus ON after setup is documented unsupported.',
      'exhaustive input-shape enumeration (all subgraphs x status patterns) against a union-find reference',
      'DESIGN.md#c12')

claim('C19',
      'Every System.add history of depth <=3 (<=4) over two models of one group x an index alphabet with duplicates, '
      'numeric/string twins, auto-index look-alikes and NaN is executed on a real System; after each add and after '
      'setup the group/model registries and every lookup (idx2model, idx2uid, get, find_idx model/group, allow_none, '
      'allow_all, two-key) are compared with a dict-based registry; all assignments of <=3 referrers for the BackRef '
      'users; each reference kind once dangling; all busf assignments for the DeviceFinder user. Group and model find_idx by bus are enumerated for all query tuples of length <= 3 over buses (1, 2, 3, missing) x allow_all x allow_none on three groups whose models share buses.'
      ' Optional links (bus -> area, machine -> COI) unset / set in every order over 3 devices, with Area and COI devices present.',
      'Trusts the dict reference; only StaticGen is used for add-histories (the registry code is group-independent); '
      'DeviceFinder is exercised through FLoad -> BusFreq.',
      'explicit-state exploration of add-histories and reference patterns against a dict-based registry model',
      'DESIGN.md#c19')

claim('C20',
      'At the real option-merging seam (System._update_config_object + Config + routine constructors) every assignment '
      'of file value / option value in {absent, legal, illegal} to <=2 (<=3) fields of two sections x rc-file presence '
      '(none, all sections, only used sections, other sections) plus malformed strings is executed and compared with a '
      'precedence dict; real System objects get every one of the ~400 fields through each channel in turn, with '
      'save -> load round trip of value and type, dict channel, run-time update; the step actually taken equals '
      'TDS.tstep per channel. Histories also set every field by plain attribute assignment before save_config; three value sets per field including signed integers and negative floats; an integer given as text must be an integer in effect.'
      ' Histories of two Systems in one process over one unchanged rc file ({file, options, dict} then {file, options}); a rejected Config.update must not stay in effect.',
      'Trusts the reference coercion rule (int, else float, else text); numba/dime/seed fields excluded from all-field '
      'runs; dict-vs-option conflicts unspecified and not explored.',
      'exhaustive channel/value-class enumeration at the configuration seam against a precedence-dict reference',
      'DESIGN.md#c20')

claim('C09',
      'Memoryless components: every configuration (64 Limiter configurations, SortedLimiter, LessThan, IsEqual, DeadBand, '
      'RateLimiter, Switcher, Selector) on the full (u, lower, upper) lattice {-2..2}^3 incl. equality and inverted '
      'limits; AntiWindup(/Rate): every two-call history over value x derivative sign x iteration lock x limit pairs; '
      'DeadBandRT: every below/inside/above history to depth 5 (7); Delay(step/time)/Average/Derivative/Sampling: every '
      'time-move history (repeat, +h, +2h, +h/2, rewind into the last step) of depth 5 (6) x every 3-level input '
      'history, against ten-line reference definitions; plus every stored instant of every anti-windup state in 8 '
      'simulations with binding limiters.'
      ' Part awmove: a limit moved between consecutive check_eq calls while the pegged set is unchanged; flags, state, derivative and x_set write-back values against the limits in force.',
      'Trusts vmc/refs/discrete.py (transcribed from the class docstrings); rewinds restricted to what a rejected step '
      'produces; Selector ties and Sampling after rewinds judged only weakly.',
      'explicit-state exploration of input/time histories of the real component classes against reference semantics',
      'DESIGN.md#c09')

claim('C10',
      'A 19-device dynamic system is assembled through System.add in every order of a bounded family (base, reversed, '
      'round-robin, dynamic-first, every within-model permutation; pairs of deviations in thorough) x index types '
      '{int, str, mixed, auto} x collated storage on one model at a time; after set-up and again after dynamic '
      'initialisation the address map is checked to be a bijection onto the state/algebraic vectors, slot names are '
      'checked, and a sentinel vector is read back through every internal variable, every external variable '
      '(resolved by the harness from the device specification), Model.get, Group.get, external parameters and Output '
      'selection.',
      'One reference device set (the addressing code is model-independent); Bus itself is never collated (the network '
      'code documents contiguous bus addresses).',
      'bounded exhaustive enumeration of add orders / index types with a sentinel read-back oracle',
      'DESIGN.md#c10')

claim('C08',
      'The real EIG methods (calc_As/_reduce/_reorder/calc_pfactor/_store_stats) are driven on a stub system holding '
      'hand-built Jacobians: 5 (6) DAE systems x ALL zero-time-constant patterns with a well-conditioned algebraic block '
      'x ALL permutations of the state order; reported eigenvalues must equal the finite generalised eigenvalues of '
      '(J, diag(T,0)) from scipy, the state matrix T^-1(fx - fy gy^-1 gx), counts must partition, participation '
      'factors be non-negative with per-mode sum one and the most-associated state equal to an independent '
      'decomposition; the same oracle (reference: the harness\'s own Schur reduction, plus a structural mode-count '
      'clause) on 7 stock dynamic cases through EIG.run, on every subset of <=1 (2) exciter lead-lag constants set to '
      'zero, and on ONE kundur_full System re-analysed after every operation of all sequences of depth <= 3 (4) that move '
      'time constants between zero and non-zero.'
      ' Part oppoint: EIG.run after TDS.run(tf) [-> TDS.run(tf + 1)] with a line trip, lazy and honest Jacobian updates, both methods, against the pencil of Jacobians refreshed by the harness at the point reached.',
      'Trusts scipy.linalg.eig / numpy eigvals; synthetic patterns whose algebraic block has condition number > 1e3 are '
      'excluded at enumeration; stock cases are judged unless one of the two eliminations is numerically singular '
      '(ieee39_full); repeated eigenvalues are not judged for the most-associated state.',
      'exhaustive enumeration of zero-T patterns x state permutations against a generalised-eigenvalue reference',
      'DESIGN.md#c08')

claim('C16',
      'One Solver instance per back-end (klu, umfpack, spsolve): every sequence of <=3 (4) operations from {solve, linsolve '
      '(5 matrices: regular, same pattern new values, other pattern, other size, singular), linsolve with a matrix '
      'right-hand side, set factorize, set new_A, clear} is executed and every call the property names is checked with a '
      'dense residual (A x = b to 1e-9, singular input never yields a finite x); native crashes and hangs are caught by '
      'the runner. Routine level: three systems x back-end x linsolve x ipadd (x Newton variant): power-flow solution, '
      'stored trajectory and eigenvalues equal the default configuration; bit-identical repetition in fresh processes '
      'via sha1 digests of the raw results. The routine product includes ieee14 with an islanded load bus (island post-processing of residuals and matrices in both accumulation modes); every linsolve with a column right-hand side must leave the solution in that right-hand side.'
      ' The matrix alphabet includes another pattern with the shape and number of stored entries of the first.',
      'SciPy solve() without a pending refresh is documented to reuse its factorisation and is not judged; numba only in '
      'thorough; matrices are 3x3/4x4 (the wrapper logic is size-independent).',
      'explicit-state exploration of solver-call sequences + full configuration product against the default run',
      'DESIGN.md#c16')

claim('C17',
      'Fault catalogue executed against the real routines. Power flow: 23 ill-posed / borderline inputs on a 3/4-bus '
      'network (load ladder across the loadability limit, 100x overload, island without slack, slack off, zero impedance, '
      'tap = 0, NaN / inf parameters, negative reactance, iteration limit 1) x Newton variant (NR, dishonest, NK) x routine '
      'sequence (pflow | +tds | +eig | +tds+eig) and the CLI entry point. Oracle: True implies finite state, the routine\'s '
      'residual test recomputed passes and the power balance of the reported voltages holds in the independent network '
      'model; ill-posed inputs must give False, non-zero exit code, and TDS / EIG must return False without raising. '
      'Time domain: 9 dynamic faults on kundur_full (violated limiter at initialisation, 1.5 s fault, machine trip, all '
      'lines tripped, inconsistent ratings, forced rejection with fixed step and shrinkt = 0) and one NaN answer of the '
      'linear solver injected at each of the first 10 solves for two integration methods. Loss of synchronism: two '
      'classical machines that keep converging while slipping (light machine x fault bus x 5 durations x add order x '
      'method): the stability criterion recomputed from the stored angles must stop the run. Histories: one System through '
      'all sequences of depth <= 3 (4) over solvable / unsolvable states, power flow after each, TDS and EIG on the last. Files: every token-boundary '
      'prefix of a json case, 8 truncations of an xlsx case, empty, wrong extension, missing - through andes.load and '
      'the CLI entry point.'
      ' Files part: an intact and a missing file on one command line; tds part: failing initialisations requested through PFlow.init_tds = 1.',
      'Rejecting bad data while loading (exception or None) counts as reported failure; a routine run() that raises '
      'instead of returning its flag is a violation. Inputs the models document a default / regularisation for may '
      'succeed if the result is truthful. The reference power balance applies the documented conversion of PQ loads to impedances outside their voltage band.',
      'exhaustive fault-catalogue enumeration x routine sequences on the implementation with single-fault injection at '
      'every solver call below K',
      'DESIGN.md#c17')

claim('C18',
      'All 23 linear block classes (gain, integrator, lag family incl. freeze / anti-windup / rate variants, washout, '
      'washout-or-lag, 2nd-order lag and lead-lag, lead-lag (+limit), PI / PID family incl. anti-windup, tracking and freeze '
      'variants) are instantiated with named parameters and define()d; on the full tensor grid of 4 (5) generic values per '
      'parameter in the regular region and in every documented bypass region, the exported equation strings are linearised '
      '(affinity checked), internal variables eliminated with T on the left, and G_impl(s) compared with the documented '
      'G(s) at 7 complex frequencies; declared initial values must balance every equation for constant input.'
      ' The PI-family blocks are built with a reference input: dependence on (u, ref) only through u - ref, and u = ref is a steady state of the declared initial values.',
      'vmc/refs/blocks_doc.py (hand transcription of the documented transfer functions) is trusted; grid agreement decides '
      'polynomial identity only up to the stated degree bound; limits are placed far outside the operating range.',
      'exhaustive tensor-grid enumeration per block and region against the documented transfer function',
      'DESIGN.md#c18')

claim('C01',
      'All connected graphs on 2..3 (4) buses; default network plus all single deviations (9 branch features incl. taps, '
      'phase shift, asymmetric end shunts, charging, own MVA/kV base, offline parallel line, tap+charging and '
      'tap+phase+end shunts on one branch; 5 bus device sets) plus pairs; '
      'cross dimensions one at a time (reversed order, string indices, re-based data, json round trip, dishonest / '
      'Newton-Krylov, umfpack / spsolve, linsolve, ipadd=0). Each execution: real PFlow.run from a flat start; complex power '
      'balance recomputed from the INPUT data by an independent pi-model with textbook base conversion, set-points, and '
      'agreement with an independent Newton solution and with the default variant.'
      ' Wave 4: a bus device set with an out-of-service bus (to-end of two branches, from-end of two more, two loads, a generator, a shunt) whose attachments the reference drops.',
      'Trusts vmc/refs/acflow.py; networks up to 4 buses; PQ voltage limits set wide; Vn2 != bus kV excluded; xlsx / '
      'MATPOWER / PSS/E input channels are covered under C13.',
      'bounded exhaustive enumeration of network shapes with deviation bounding against an independent AC reference',
      'DESIGN.md#c01')

claim('C02',
      'Every one of the 97 shipped models: every generated function actually loaded from the pycode on disk (f_update, '
      'g_update, sequential services, the non-sequential batch, explicit and iterative initialisers) is called on a lattice '
      '(generic distinct values per argument x a covering design of all discrete inputs: limiter triples, LessThan pairs, '
      'switchers, numeric config switches, dae_t; default + all single deviations + all pairs when affordable) and compared '
      'element by element with the declared string evaluated by an independent evaluator; the real f_update/g_update are '
      'run so each value is read back from the equation array of the declaring variable. Regeneration into a second '
      'fresh home is compared per model. The staleness protocol is explored as operation sequences (model variants x '
      'file states x constructions) on a private pycode tree.',
      'Trusts vmc/refs/expr.py (python eval + function vocabulary); lattice, not all points; generator changes that keep the '
      'model md5 are caught by the values part because every check regenerates pycode from the current tree.',
      'exhaustive enumeration of models x functions x discrete-input covering design against an independent evaluator; '
      'explicit-state exploration of the code-cache protocol',
      'DESIGN.md#c02')

claim('C03',
      'Symbolic level: every generated Jacobian element and iterative-init Jacobian of every model is compared on the '
      'lattice with a Richardson central difference of the independently evaluated equation string (never across a '
      'breakpoint), the matrix name must match row/column kinds, and every (equation, variable) pair absent from the '
      'triplet list must have zero derivative. Assembled level: 10 stock systems x status patterns (each of the first '
      'lines / loads / generators off, leaf-bus isolation, pairs in thorough) x ipadd x both addressing phases x 5 operating '
      'points: dae.fx/fy/gx/gy entry-wise against finite differences of the assembled residual, non-zeros inside the stored '
      'pattern, pattern stable across updates, in-place = rebuilt accumulation. On the all-on systems the comparison is repeated after every continuous parameter read by a Jacobian function has been changed in place and the first device of every dynamic model switched off; islanded-bus rows take part in the comparison of the two accumulation modes.'
      ' Part newton: every matrix handed to Solver.solve / linsolve by the power-flow and time-domain routines (full product method x g_scale x honest x linsolve x tstep x fixt, two systems with a line trip) equals the derivative of the residual vector handed over with it.',
      'Rows of models with VarService / numeric hooks, anti-windup-pegged states and neutralised isolated-bus rows are not '
      'closed-form and are skipped; limiter kinks accept either one-sided derivative.',
      'exhaustive enumeration of models x Jacobian entries x lattice, and systems x status x operating points, against '
      'finite differences',
      'DESIGN.md#c03')

claim('C11',
      'Coefficients: 19 stock cases (covering AC, DC, renewable, exciter, governor, load and shunt models incl. list-valued '
      'parameters) x device-MVA, device-kV and system-MVA variants: every parameter flagged power / ipower / voltage / current '
      '/ z / y / r / g / dc_* of every populated model satisfies system value = input value x textbook ratio recomputed by '
      'the harness from the raw bases. Histories: every sequence of depth <=2 (and depth 3 ending in a checking operation; '
      'full depth 3 in thorough) over {alter, alter(attr=vin), Group.alter, set, PFlow.run, TDS.init, TDS.run, System.reset, '
      'dump json, dump xlsx, as_dict(vin)} on the 5-bus dynamic case against a reference dict (vin, v, k); exports hold the '
      'altered inputs; the power balance recomputed from the input data holds after a power flow; an altered time constant '
      'is in dae.Tf and TDS.Teye.',
      'Trusts the textbook ratios in the harness and vmc/refs/acflow.py; histories on one case (the alteration code is '
      'model-independent); reset after dynamic initialisation is documented as refused.',
      'exhaustive enumeration of flagged parameters x base variants; explicit-state exploration of alter/set/reset/export '
      'histories against a reference dict',
      'DESIGN.md#c11')

claim('C13',
      'Every stand-alone stock case (93 files) is written to json and xlsx and read back: same models, device order, '
      'as_dict(vin) value by value with type class, same power flow and initialisation. The generated 3-bus family (every '
      'single branch feature / bus device set, pairs in thorough) x extra parameter kinds (string idx, list-valued ShuntSw, '
      'dynamic devices with optional fields) goes through both formats. The same networks are written as MATPOWER text and '
      'as PSS/E RAW v33 text by independent generators (ZIP load parts, offline loads, end shunts GI/BI/GJ/BJ, CW in {1,2}, '
      'CZ in {1,2}, winding-2 tap, ratio-0 phase shifter) and the parsed element data are compared with the generator data by '
      'the textbook conversion (case base 100 and 50 MVA); system2mpc -> mpc2system must give an equivalent system with the '
      'same power flow. A three-winding transformer record (7 variants: ratios, angles, SBASE, CZ=2 with three winding-pair '
      'bases, magnetising admittance) must give the power-flow voltages of its star equivalent solved by the independent '
      'network model. Generated dyr text (13 record types x 3 placement plans on three generators, two of them on one bus x 3 '
      'record orders x 2 layouts): every field against the PSS/E documentation order, attachment by (IBUS, ID), M = 2H, '
      'Sn = MBASE.'
      ' MATPOWER generator status codes 2 / -1 / 0 and the closing bracket on the line of the last row; three-winding status codes 0 / 2 / 3 / 4.',
      'The RAW / MATPOWER / dyr generators and the PSS/E field tables in the check are the independent reading; dyr models '
      'outside the 13 tabulated ones only through stock cases; numeric-looking string indices excluded from the xlsx leg.',
      'exhaustive enumeration of stock files and of a generated case family x formats against independent writers/readers',
      'DESIGN.md#c13')

claim('C04',
      'The real integrator is run on a classical-machine system and on kundur_full (GENROU, exciters, governors with '
      'anti-windup) for every configuration of method x fixt x g_scale x honest x tstep (deviation-bounded in quick, full '
      'product in thorough) x disturbance schedules {none, line trip, trip + reclose, fault}; the decision point is each call of '
      'the step routine and every subset of <=1 (<=2) forced rejections (real Newton loop with an unsatisfiable tolerance) '
      'among the first 12 calls is executed. Every accepted step is checked row by row against the implicit rule with f, g '
      're-evaluated at the accepted point and a bound built from the iteration matrix and last increment the run itself used; '
      'every rejected step must leave x, y, f bit-identical; step size, end time, monotone time and "time advances by the h '
      'used in the rule" are checked at every call. Every configuration is also interrupted at 0.2 s and resumed (with and '
      'without a forced rejection after the resume); the sample stored before the interruption must be unchanged.'
      ' Schedules that alter a time constant during the run (Alter devices, Model.alter between resumed segments); the rule is judged with the time constants of the model parameters, which must equal dae.Tf.',
      'Bound 2|Ac|(|inc| + tol 1e-6) (convergence is declared on the increment); f0 is the value the integrator used; steps at '
      'which the re-evaluation pegs a limiter are not judged; order of convergence is decided under C07.',
      'deviation-bounded exploration of forced step rejections on the real integrator with a per-step residual oracle',
      'DESIGN.md#c04')

claim('C05',
      'Every stand-alone stock case (93 files, enumerated from disk) is loaded, solved and dynamically initialised; the '
      'reported verdict must equal the harness recomputation of max|f, g| from a fresh residual evaluation (truthfulness, '
      'unconditional); when the independent precondition holds (every limiter inside, single-slack energised network, online '
      'static generator behind every dynamic one) initialisation must succeed, bus voltages must equal the power-flow '
      'solution and an undisturbed 1 s run must stay within 10 tol. The same oracle on a two-machine base system with each of '
      'the ~55 generically attachable dynamic models (all exciters, governors, stabilisers, compensator, renewable generator '
      'and controller chain, distributed generators, dynamic loads, motors, measurement devices; exciter x governor pairs in '
      'thorough), on kundur_full with each dynamic device offline, on a static generator split between two machines, and on '
      'two systems with all 25 combinations of the static-load conversion weights for P and Q. A further part attaches every model with each option of each of its Switcher (mode / flag) parameters, IEEEST with every MODE x remote bus and ST2CUT with every MODE x MODE2 x local / remote signal buses.'
      ' Every attachable model is attached once in service and once out of service (u = 0).',
      'Precondition decided by the harness from live limiter flags; attach uses default parameters; models needing '
      'companion files only through stock cases.',
      'exhaustive enumeration of stock cases and attachable models with a residual-recomputation oracle',
      'DESIGN.md#c05')

claim('C14',
      'Reference = one uninterrupted run of a classical-machine system (fault + line trip), a static system (toggles + '
      'alteration) and kundur_full (line trip). Interruptions: every accepted-step boundary of the reference among the first '
      '12 steps, te - 1e-4 / te - 1e-5 / te -+ 1e-6 / te / te + 1e-4 for every event, off-grid times; all singles and all '
      'pairs; continuation by extending tf '
      'and calling run() again, by save_ss -> load_ss in the same process, and by loading the snapshot in a fresh interpreter. '
      'The event log must equal the reference log (none lost, repeated or shifted), the time axis must be strictly increasing '
      'with no gap beyond the step and contain every split time, the final state must agree (1e-9 at step boundaries, '
      'discretisation bound otherwise), variables must be views of the DAE arrays after load_ss; reset + power flow x3 must '
      'reproduce the first solution and DAE sizes on 6 cases. All five views of the stored series (t, x, y, xy, txyz) must have the same number of rows and end with the final state after a resume, with the composite views looked at between segments.',
      'Snapshot modes at the event lattice and every 4th boundary (dill costs 2 s); fresh-process continuation judged by '
      'trajectory, not by callback log.',
      'exhaustive enumeration of interruption points (crash-point style) x continuation modes against the uninterrupted run',
      'DESIGN.md#c14')

claim('C15',
      'A recorder around the step routine copies (t, x, y, f) after every accepted step. For every configuration of a '
      'lattice (default + all single deviations + pairs over save_every {1,2,3,0}, limit_store, max_store {2,5,900}, store_f, '
      'store_z, output files on/off, 9 Output selections incl. overlapping and invalid rows, single vs resumed run) on SMIB '
      'and kundur_full: the in-memory series, the npz + lst files (independent reader and TDSData), export_csv and the csv '
      'replay must hold exactly the recorder rows the thinning rule selects, bit-identical (1 ulp for the replay, whose csv '
      'reader is not correctly rounded), with labels naming the address held; chunked off-loading must concatenate to the '
      'same rows; queries by variable, device subset and name pattern must return the right columns. In every configuration the in-memory plotter is loaded and five variables (states, bus algebraics, an external algebraic) are queried through it: the columns and values must be the simulated ones for the stored addresses.',
      'Output-related options are supplied at load time (flag names are allocated at set-up); z columns are not compared.',
      'bounded exhaustive enumeration of output configurations against a step-level recorder',
      'DESIGN.md#c15')

claim('C07',
      'Single-machine benchmark: GENCLS against an infinite bus through three parallel lines; parameter lattice M x D x x\'d x '
      'line reactance x loading (default + all single and pair deviations in quick, full tensor in thorough) x 7 switching '
      'schedules (none, open at t1, open and reclose) x both methods, each run at four step sizes; the rotor angle is compared '
      'with the swing equation integrated by scipy (DOP853, rtol 1e-10) from the power-flow point: the error must shrink at '
      'the method\'s order on two successive halvings and stay below a bound built from the reference\'s own derivatives at '
      'the default step and tolerance. Small-signal benchmark: every state direction (every 3rd in quick) of SMIB, '
      'kundur_full and ieee14_full perturbed by 1e-4 for both methods against expm(As t) dx0 with As assembled by the '
      'harness from the Jacobians at the operating point.'
      ' Sixth axis: machine rating 100 / 250 MVA (the same physical machine entered on its own base).',
      'Lattice of parameter values only; order visible only below the Newton tolerance (order runs use tol 1e-9) and above '
      'the 2e-5 rad floor the eps-steps around events leave; A2 shares the Jacobians with the simulator (C03 decides those).',
      'full lattice enumeration of benchmark parameters and perturbation directions against independent reference solutions',
      'DESIGN.md#c07')

_PENDING = 'check not built yet in this round; planned per DESIGN.md (bounded exhaustive exploration applies)'
for _p in ALL:
    if _p not in CLAIMED:
        NOT_APPLICABLE[_p] = _PENDING
