"""Which properties are claimed, at which level, and which are not (kept in sync with DESIGN.md)."""
CLAIMED = {}
NOT_APPLICABLE = {}


def claim(pid, text, note, technique, ref):
    CLAIMED[pid] = dict(text=text, note=note, technique=technique, ref=ref)


ALL = ['C%02d' % i for i in range(1, 21)]

claim('C06',
      'Every event schedule (multisets of <=2 quick / <=3 thorough events from a toggle/alter/fault alphabet x a time '
      'lattice containing t0, grid, off-grid, eps-neighbour, tf, beyond-tf, negative and >10 s times) x step '
      'configurations x resume splits is run through the real TDS loop and compared with an independent fold of the '
      'schedule; plus every scripted convergence pattern with <=2 (3) deviations from "converged fast" at the step seam. '
      'Exhaustive within those bounds, on the implementation itself.',
      'Trusts: the tiny systems are representative of the dispatch logic (which is system-independent); event times '
      'closer than 2*eps are outside the alphabet; observation wrappers on timer callbacks and callpert do not perturb the run.',
      'bounded exhaustive schedule enumeration + deviation-bounded scripted-environment exploration of the real loop',
      'DESIGN.md#c06')

_PENDING = 'check not built yet in this round; planned per DESIGN.md (bounded exhaustive exploration applies)'
for _p in ALL:
    if _p not in CLAIMED:
        NOT_APPLICABLE[_p] = _PENDING
