"""
In-process checkpoint / restore of a live ``andes.System``.

Forking one child per execution costs ~100 ms here and does not scale across
cores in this sandbox (page-fault bound), so executions that start from a
common checkpoint ("case set up, power flow solved, dynamics not initialised")
run in-process and the checkpoint is restored between executions.  Everything
an execution can mutate is restored: parameter / service / discrete arrays of
every populated model, plain scalars and arrays hanging off model objects,
the event table, the DAE clock and the routine state.  The determinism audit
of the runner re-executes a sample of cases in *fresh* processes and compares
observation digests, so an incomplete restore shows up as a harness error
(exit 2), never as a verdict.
"""

from collections import OrderedDict

import numpy as np


class Checkpoint:
    def __init__(self, ss, routines=('PFlow', 'TDS', 'EIG')):
        self.ss = ss
        self.arrays = []     # (owner_dict_or_obj, key, copy)
        self.scalars = []
        self.cfg = {}
        for mdl in ss.models.values():
            self.cfg[mdl.class_name] = dict(mdl.config.as_dict())
            if mdl.n == 0:
                continue
            self._snap_obj(mdl, depth=0)
            seen = set()
            for reg in ('params', 'params_ext', 'services', 'services_var', 'services_post', 'services_ext',
                        'services_ops', 'services_icheck', 'services_ref', 'services_fnd', 'discrete'):
                for comp in getattr(mdl, reg, {}).values():
                    if id(comp) not in seen:
                        seen.add(id(comp))
                        self._snap_obj(comp, depth=1)
        for r in routines:
            self.cfg[r] = dict(getattr(ss, r).config.as_dict())
        self.cfg['System'] = dict(ss.config.as_dict())
        self.dae_t = float(ss.dae.t)
        self.dae_xy = (ss.dae.x.copy(), ss.dae.y.copy())
        self.exit_code = ss.exit_code
        self.callbacks = {}
        for mdl in ss.models.values():
            for name, tp in mdl.timer_params.items():
                self.callbacks[(mdl.class_name, name)] = tp.callback
        self.pflow = dict(converged=ss.PFlow.converged, niter=ss.PFlow.niter,
                          x_sol=None if getattr(ss.PFlow, 'x_sol', None) is None else np.array(ss.PFlow.x_sol),
                          y_sol=None if getattr(ss.PFlow, 'y_sol', None) is None else np.array(ss.PFlow.y_sol))

    def _snap_obj(self, obj, depth):
        d = getattr(obj, '__dict__', None)
        if d is None:
            return
        for key, val in list(d.items()):
            if key in ('system', 'owner', 'parent', 'calls', 'cache', 'config', 'triplets', 'group'):
                continue
            if isinstance(val, np.ndarray):
                if key in ('v', 'e') and _is_var(obj):
                    continue          # views into dae arrays
                self.arrays.append((d, key, val.copy()))
            elif isinstance(val, (bool, int, float, str)) or val is None:
                if depth <= 1:
                    self.scalars.append((d, key, val))
            elif isinstance(val, list) and depth <= 1 and all(
                    isinstance(x, (bool, int, float, str, type(None))) for x in val):
                self.arrays.append((d, key, list(val)))

    def restore(self):
        ss = self.ss
        for d, key, val in self.arrays:
            cur = d.get(key)
            if isinstance(val, list):
                d[key] = list(val)
            elif isinstance(cur, np.ndarray) and cur.shape == val.shape and cur.dtype == val.dtype:
                cur[...] = val
            else:
                d[key] = val.copy()
        for d, key, val in self.scalars:
            d[key] = val
        for mdl in ss.models.values():
            for name, tp in mdl.timer_params.items():
                tp.callback = self.callbacks[(mdl.class_name, name)]
            _cfg_restore(mdl.config, self.cfg[mdl.class_name])
        for r in ('PFlow', 'TDS', 'EIG'):
            if r in self.cfg:
                _cfg_restore(getattr(ss, r).config, self.cfg[r])
        _cfg_restore(ss.config, self.cfg['System'])
        ss.switch_dict = OrderedDict()
        ss.switch_times = np.array([])
        ss.n_switches = 0
        ss.exit_code = self.exit_code
        tds = ss.TDS
        for k in ('itm_step', 'calc_h', 'do_switch', 'fg_update', 'init', 'run'):
            tds.__dict__.pop(k, None)
        tds.reset()
        tds.callpert = None
        tds.call_stats = list()
        tds.err_msg = ''
        tds.chatter = False
        tds.test_ok = None
        tds.from_csv = None
        tds.data_csv = None
        tds.k_csv = 0
        tds.exec_time = 0.0
        tds.set_method(tds.config.method)
        ss.dae.t = np.array(self.dae_t)
        n0, m0 = len(self.dae_xy[0]), len(self.dae_xy[1])
        ss.dae.x[:n0] = self.dae_xy[0]
        ss.dae.y[:m0] = self.dae_xy[1]
        ss.dae.x[n0:] = 0.0
        ss.dae.y[m0:] = 0.0
        ss.dae.kcount = 0
        ss.dae.clear_ts()
        ss.PFlow.converged = self.pflow['converged']
        ss.PFlow.niter = self.pflow['niter']
        if self.pflow['x_sol'] is not None:
            ss.PFlow.x_sol = np.array(self.pflow['x_sol'])
            ss.PFlow.y_sol = np.array(self.pflow['y_sol'])
        ss.vars_to_models()


def _cfg_restore(cfg, saved):
    for k, v in saved.items():
        cfg.__dict__[k] = v
    if hasattr(cfg, '_dict'):
        try:
            cfg._dict.update(saved)
        except Exception:
            pass


def _is_var(obj):
    from andes.core.var import BaseVar
    return isinstance(obj, BaseVar)


def _is_component(val):
    from andes.core.param import BaseParam
    from andes.core.service import BaseService
    from andes.core.discrete import Discrete
    return isinstance(val, (BaseParam, BaseService, Discrete))
