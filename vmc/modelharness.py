"""
Shared harness for C02 / C03: drive the generated code of one model at the seam
``refresh_inputs_arg -> f_update / g_update / calls.*`` with harness-filled input arrays, and evaluate the
declared strings with the independent evaluator (vmc.refs.expr).
"""

import itertools
import zlib

import numpy as np

from vmc.refs.expr import Evaluator

BINARY_FLAGS = ('zi', 'zl', 'zu', 'z0', 'z1', 'zur', 'zlr', 'zl0', 'zu0', 'ql', 'qu')


def is_binary_flag(flag):
    return flag in BINARY_FLAGS or (flag.startswith('s') and flag[1:].isdigit())


def groups_of(mdl):
    """Discrete-flag groups: list of (list of flag input names, list of states) with states = tuples of 0/1."""
    groups = []
    for d in mdl.discrete.values():
        names = list(d.get_names())
        flags = [nm[len(d.name) + 1:] for nm in names]
        if not names or not all(is_binary_flag(f) for f in flags):
            continue
        if set(flags) >= {'zi', 'zl', 'zu'}:
            core = [flags.index(f) for f in ('zi', 'zl', 'zu')]
            states = []
            for hot in core:
                st = [0] * len(flags)
                st[hot] = 1
                states.append(tuple(st))
        elif set(flags) == {'z0', 'z1'}:
            i0, i1 = flags.index('z0'), flags.index('z1')
            a = [0, 0]
            a[i0] = 1
            b = [0, 0]
            b[i1] = 1
            states = [tuple(a), tuple(b)]
        else:
            states = []
            for hot in range(len(flags)):
                st = [0] * len(flags)
                st[hot] = 1
                states.append(tuple(st))
            if len(flags) == 1:
                states.append((0,))
        groups.append((names, states))
    # config switches with declared numeric alternatives, and the time switch dae_t
    for key, val in mdl.config.as_dict().items():
        alt = mdl.config._alt.get(key)
        if isinstance(alt, (tuple, list)) and alt and all(isinstance(a, (int, float)) for a in alt) and len(alt) <= 4:
            states = [(float(val),)] + [(float(a),) for a in alt if a != val]
            groups.append(([key], states))
    groups.append((['dae_t'], [(-1.0,), (0.0,), (1.5,)]))
    return groups


def assignments(groups, max_pairs=1500):
    """Covering design: default, all single deviations, all pairs when affordable. Returns (list, exhaustive_pairs)."""
    default = [0] * len(groups)
    out = [tuple(default)]
    singles = []
    for gi, (names, states) in enumerate(groups):
        for si in range(1, len(states)):
            a = list(default)
            a[gi] = si
            singles.append((gi, si))
            out.append(tuple(a))
    npairs = sum(1 for (g1, s1), (g2, s2) in itertools.combinations(singles, 2) if g1 != g2)
    pairs_done = False
    if npairs <= max_pairs:
        for (g1, s1), (g2, s2) in itertools.combinations(singles, 2):
            if g1 == g2:
                continue
            a = list(default)
            a[g1] = s1
            a[g2] = s2
            out.append(tuple(a))
        pairs_done = True
    return out, pairs_done


def generic(name, n, salt, complex_=False):
    rng = np.random.RandomState((zlib.crc32(name.encode()) + 7919 * salt) % (2 ** 31))
    pos = rng.uniform(0.3, 1.7, n)
    mixed = rng.uniform(-1.5, 1.5, n)
    pick = rng.uniform(0, 1, n) < 0.7
    val = np.where(pick, pos, mixed)
    if n >= 3:
        # the last generic point is negative for EVERY input at once: helper functions whose meaning depends on a sign
        # (guarded division, absolute values, comparisons) are exercised on both sides for every argument
        val[-1] = -pos[-1]
    if complex_:
        val = val + 1j * rng.uniform(-1.2, 1.2, n)
    return val


class ModelDriver:
    def __init__(self, mdl, G=3, salt=0, max_pairs=1500):
        self.mdl = mdl
        self.ev = Evaluator()
        for fnd in getattr(mdl, 'services_fnd', {}).values():
            if fnd.v is None:
                fnd.v = []          # an unpopulated model has not run DeviceFinder yet
        proto = mdl.get_inputs(refresh=True)
        self.names = list(proto.keys())
        self.groups = groups_of(mdl)
        self.assign, self.pairs_done = assignments(self.groups, max_pairs=max_pairs)
        self.G = G
        self.N = len(self.assign) * G
        N = self.N
        grouped = {nm for names, _ in self.groups for nm in names}
        vals = {}
        for nm in self.names:
            arr = proto[nm]
            if nm == '__zeros':
                vals[nm] = np.zeros(N)
            elif nm == '__ones':
                vals[nm] = np.ones(N)
            elif nm == '__falses':
                vals[nm] = np.full(N, False)
            elif nm == '__trues':
                vals[nm] = np.full(N, True)
            elif nm == 'sys_f':
                vals[nm] = np.full(N, 60.0)
            elif nm == 'sys_mva':
                vals[nm] = np.full(N, 100.0)
            elif nm in grouped:
                vals[nm] = np.zeros(N)
            elif nm in mdl.config.as_dict():
                v = mdl.config.as_dict()[nm]
                vals[nm] = np.full(N, float(v)) if isinstance(v, (int, float)) else np.full(N, 1.0)
            else:
                cplx = np.iscomplexobj(arr)
                vals[nm] = np.tile(generic(nm, G, salt, cplx), len(self.assign))
        for ai, a in enumerate(self.assign):
            sl = slice(ai * G, (ai + 1) * G)
            for gi, (names, states) in enumerate(self.groups):
                st = states[a[gi]]
                for nm, v in zip(names, st):
                    if nm in vals:
                        vals[nm][sl] = v
        self.vals = vals

    # ---- reference
    def ref(self, expr, vals=None):
        return self.ev(expr, self.vals if vals is None else vals, self.N)

    # ---- implementation
    def call(self, func, argnames, vals=None):
        vals = self.vals if vals is None else vals
        ret = func(*[vals[a] for a in argnames])
        return ret

    def deliver(self):
        """Run the real f_update / g_update and return {var name: e array}."""
        mdl = self.mdl
        N = self.N
        mdl._input = type(mdl._input)((k, v) for k, v in self.vals.items())
        mdl.refresh_inputs_arg()
        for var in mdl.cache.all_vars.values():
            var.e = np.zeros(N)
            var.v = self.vals[var.name]
        mdl.f_update()
        mdl.g_update()
        return {name: np.array(var.e) for name, var in mdl.cache.all_vars.items()}


def close(a, b, rtol=1e-11, atol=1e-12):
    a = np.asarray(a)
    b = np.asarray(b)
    if a.dtype == bool:
        a = a.astype(float)
    if b.dtype == bool:
        b = b.astype(float)
    a = np.broadcast_to(a, b.shape) if a.shape != b.shape and a.size == 1 else a
    if a.shape != b.shape:
        try:
            a = np.broadcast_to(a, b.shape)
        except ValueError:
            return False, None
    with np.errstate(all='ignore'):
        both_nan = np.isnan(a) & np.isnan(b)
        both_inf = np.isinf(a) & np.isinf(b) & (np.sign(np.real(a)) == np.sign(np.real(b)))
        ok = np.abs(a - b) <= atol + rtol * np.maximum(np.abs(a), np.abs(b))
    ok = ok | both_nan | both_inf
    if np.all(ok):
        return True, None
    k = int(np.flatnonzero(~ok)[0])
    return False, k
