"""Generate /verif/MANIFEST.json from the registry below (python -m vmc.manifest)."""
import json
import os

from vmc import env

PY = '/venv/bin/python'

from vmc.registry import CLAIMED, NOT_APPLICABLE


def build():
    checks = []
    for pid in sorted(CLAIMED):
        c = CLAIMED[pid]
        checks.append(dict(
            property_id=pid,
            quick_cmd=f'{PY} -m vmc.check {pid} --tier quick',
            thorough_cmd=f'{PY} -m vmc.check {pid} --tier thorough',
            evidence_file=f'/verif/evidence/{pid}.json',
            replay_cmd_template=f'{PY} -m vmc.check {pid} --replay {{path}}',
            engine='vmc',
            level_claimed=dict(category='model_checking', text=c['text'], design_ref=c['ref']),
            level_note=c['note'],
            technique=c['technique'],
        ))
    man = dict(
        version=1,
        setup_cmd=f'{PY} -m compileall -q /verif/vmc && mkdir -p /verif/evidence /verif/.cache /var/tmp/vmc-scratch',
        hooks=dict(guard='ANDES_VERIF', enable='no in-tree hooks: observation wraps bound methods of live objects '
                   'from the harness; checks import andes from /repo working tree with a private HOME',
                   baseline_off_cmd='cd /repo && /venv/bin/python -m pytest -ra -q -p no:cacheprovider '
                   '--timeout=900 --continue-on-collection-errors',
                   source_commits=[], add_only=True),
        engines=[dict(name='vmc', path='/verif/vmc', serves_properties=sorted(CLAIMED),
                      kind_free_text='hand-written explicit-state / stateless explorer over the real ANDES '
                      'implementation: bounded exhaustive enumeration of operation sequences, environment '
                      'deviations and input shapes, each execution checked against independent numpy reference models')],
        checks=checks,
        notes='See /verif/DESIGN.md. known_findings.json lists recorded findings and fix: commits.',
        not_applicable=[dict(property_id=k, reason=v) for k, v in sorted(NOT_APPLICABLE.items())],
    )
    return man


def sanity(man):
    """Refuse to write a manifest whose ids are not exactly the ids of properties.jsonl."""
    import re
    ids = [json.loads(l)['id'] for l in open(os.path.join(env.VERIF, 'properties.jsonl')) if l.strip()]
    claimed = [c['property_id'] for c in man['checks']]
    na = [c['property_id'] for c in man['not_applicable']]
    assert all(re.fullmatch(r'C\d\d', x) for x in claimed + na), 'malformed property id in the registry'
    assert sorted(claimed + na) == sorted(ids), f'claimed + not_applicable != properties: {sorted(set(ids) ^ set(claimed + na))}'


if __name__ == '__main__':
    man = build()
    sanity(man)
    with open(os.path.join(env.VERIF, 'MANIFEST.json'), 'w') as f:
        json.dump(man, f, indent=1)
    print('MANIFEST.json written:', len(man['checks']), 'checks,', len(man['not_applicable']), 'not applicable')
