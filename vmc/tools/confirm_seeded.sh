#!/bin/bash
# Confirm a seeded change independently of the agent that wrote it:
#   confirm_seeded.sh <tag> <patch.diff> <demo.py> [nosuite]
# fresh scratch worktree of /repo HEAD (outside /repo and /verif), private HOME;
# demo without the patch must exit 0, with the patch 1, and the repository suite must still pass.
tag=$1; patch=$(readlink -f "$2"); demo=$(readlink -f "$3"); nosuite=$4
wt=/tmp/confirm-$tag-$$; home=/tmp/confirm-home-$tag-$$
git -C /repo worktree add --detach "$wt" HEAD >/dev/null 2>&1 || { echo "worktree failed"; exit 2; }
mkdir -p "$home"; cache=$(ls -dt /verif/.cache/*/home/.andes 2>/dev/null | head -1); [ -n "$cache" ] && cp -r "$cache" "$home/"
run() { (cd "$wt" && HOME=$home PYTHONPATH=$wt OMP_NUM_THREADS=1 TMPDIR=$home timeout 600 /venv/bin/python "$@"); }
run "$demo" >"$home/demo_without.log" 2>&1; without=$?
git -C "$wt" apply "$patch" || { echo "patch does not apply"; git -C /repo worktree remove --force "$wt"; rm -rf "$home"; exit 2; }
run "$demo" >"$home/demo_with.log" 2>&1; with=$?
suite="skipped"
if [ -z "$nosuite" ]; then
  suite=$(cd "$wt" && HOME=$home PYTHONPATH=$wt TMPDIR=$home /venv/bin/python -m pytest -q -p no:cacheprovider --timeout=900 tests 2>&1 | tail -1)
fi
echo "$tag demo_with=$with demo_without=$without suite: $suite"
echo "--- demo output with the patch (tail)"; tail -5 "$home/demo_with.log"
git -C /repo worktree remove --force "$wt"; rm -rf "$home"
