#!/bin/bash
# Run a scratch script in the same isolated environment the checks use (private HOME with generated code of the
# current tree, /repo first on PYTHONPATH).  VMC_REPO=<worktree> selects another tree.
repo=${VMC_REPO:-/repo}
home=$(cd /verif && VMC_REPO=$repo /venv/bin/python -c "from vmc import env; print(env.ensure_home())" | tail -1)
tmp=$(mktemp -d -p /var/tmp/vmc-scratch probe-XXXX)
HOME=$home TMPDIR=$tmp PYTHONPATH=$repo:/verif PYTHONHASHSEED=0 OMP_NUM_THREADS=1 OPENBLAS_NUM_THREADS=1 MPLBACKEND=Agg VMC_BOOT=1 \
  PYTHONDONTWRITEBYTECODE=1 /venv/bin/python "$@"
rc=$?; rm -rf "$tmp"; exit $rc
