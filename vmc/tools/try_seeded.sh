#!/bin/bash
# Run a check against a seeded change without touching /repo:
#   try_seeded.sh <patch.diff> <ID> [extra vmc.check args...]
# scratch worktree of /repo HEAD + patch, check pointed at it with VMC_REPO; evidence goes to a scratch dir.
patch=$(readlink -f "$1"); id=$2; shift 2
wt=/tmp/try-$id-$$
git -C /repo worktree add --detach "$wt" HEAD >/dev/null 2>&1 || { echo "worktree failed"; exit 2; }
git -C "$wt" apply "$patch" || { echo "patch does not apply"; git -C /repo worktree remove --force "$wt"; exit 2; }
cd /verif && VMC_REPO=$wt VMC_EVIDENCE_DIR=/var/tmp/vmc-scratch/trial-evidence /venv/bin/python -m vmc.check "$id" --tier quick "$@"
rc=$?
git -C /repo worktree remove --force "$wt"
echo "try_seeded: check exit $rc"
exit $rc
