#!/bin/bash
# Run every registered quick (or thorough) check in turn from /verif against /repo; one line per check.
tier=${1:-quick}; shift
ids=${@:-C01 C02 C03 C04 C05 C06 C07 C08 C09 C10 C11 C12 C13 C14 C15 C16 C17 C18 C19 C20}
cd /verif
for id in $ids; do
  t0=$(date +%s)
  /venv/bin/python -m vmc.check $id --tier $tier > /var/tmp/vmc-scratch/sweep-$id.log 2>&1; rc=$?
  echo "$id exit=$rc $(( $(date +%s) - t0 ))s $(grep -c '^VIOLATION' /var/tmp/vmc-scratch/sweep-$id.log) violations $(grep -c '^KNOWN-FINDING' /var/tmp/vmc-scratch/sweep-$id.log) known"
done
