#!/bin/bash
# Run every registered quick (or thorough) check in turn against /repo; one line per check.
#   sweep.sh quick|thorough [ids...]      SWEEP_TRIAL=1: evidence goes to a scratch directory (a trial run, e.g. of the thorough
#                                         tier while the committed evidence is the quick tier's)
tier=${1:-quick}; shift
ids=${@:-C01 C02 C03 C04 C05 C06 C07 C08 C09 C10 C11 C12 C13 C14 C15 C16 C17 C18 C19 C20}
here=$(cd "$(dirname "$0")/../.." && pwd)
cd "$here"
mkdir -p /var/tmp/vmc-scratch
[ -n "$SWEEP_TRIAL" ] && export VMC_EVIDENCE_DIR=/var/tmp/vmc-scratch/trial-evidence-$tier
for id in $ids; do
  t0=$(date +%s)
  log=/var/tmp/vmc-scratch/sweep-$tier-$id.log
  /venv/bin/python -m vmc.check $id --tier $tier > $log 2>&1; rc=$?
  echo "$id exit=$rc $(( $(date +%s) - t0 ))s $(grep -c '^VIOLATION' $log) violations $(grep -c '^KNOWN-FINDING' $log) known"
done
