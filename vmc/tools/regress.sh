#!/bin/bash
# Replay every recorded counterexample of a repaired defect (/verif/regressions/*.json) without the explorer:
# on the repaired tree each must print "replay: no violation" (exit 0); on a tree before the fix (VMC_REPO=<worktree>)
# it prints the VIOLATION line again.  A plain regression test, one execution each.
cd "$(dirname "$0")/../.."
rc=0
for f in regressions/*.json; do
  id=$(python3 -c "import json,sys; print(json.load(open(sys.argv[1]))['property'])" "$f")
  out=$(/venv/bin/python -m vmc.check "$id" --replay "$f" 2>&1 | grep -E "^(VIOLATION|KNOWN-FINDING|replay:)" | head -3)
  echo "$(basename "$f"): ${out:-no verdict line}"
  echo "$out" | grep -q "^VIOLATION" && rc=1
  [ -z "$out" ] && rc=2
done
exit $rc
