#!/usr/bin/env python3
"""save_seeded.py <ID> <slug> <agent out dir> <confirm log> <<< JSON{change, needs_to_manifest, check_result, ran, origin}"""
import json, os, shutil, sys
pid, slug, src, clog = sys.argv[1:5]
meta = json.load(sys.stdin)
d = f'/verif/seeded/{pid}-{slug}'
os.makedirs(d, exist_ok=True)
for f in ('patch.diff', 'demo.py', 'notes.md'):
    if os.path.exists(os.path.join(src, f)):
        shutil.copy(os.path.join(src, f), os.path.join(d, f))
log = open(clog).read().splitlines()[0] if os.path.exists(clog) else ''
out = dict(property=pid, wave=4, change=meta['change'], needs_to_manifest=meta['needs_to_manifest'],
           confirmed=dict(how='vmc/tools/confirm_seeded.sh: fresh scratch worktree of /repo HEAD outside /repo and /verif, private HOME: '
                              'demo.py exit 1 with the patch and 0 without; repository suite with the patch', log=log),
           check_result=meta['check_result'], ran=meta['ran'],
           origin=meta.get('origin', 'independent sub-agent given only the property record, the list of ideas used in waves 1-3 and a scratch worktree'))
json.dump(out, open(os.path.join(d, 'meta.json'), 'w'), indent=1)
print('saved', d, '|', log)
