"""
Explorer core: parts, parallel fork executor, evidence, violations, known findings.

A *part* enumerates a bounded space (``cases``) and runs every member against
the real implementation (``execute``).  ``execute`` returns an ``Outcome``:
the observation (anything JSON-able; hashed into the state digest), a list of
violations ``(signature, message, detail)`` and a non-triviality flag.  Nothing
is sampled: the runner executes every case the part lists for the tier; the
seed only permutes the visiting order and selects the executions repeated in
fresh processes for the determinism audit.
"""

import hashlib
import json
import math
import multiprocessing as mp
import os
import pickle
import random
import signal
import sys
import time
import traceback

from vmc import env

NPROC = int(os.environ.get('VMC_NPROC', '16'))


# ---------------------------------------------------------------- utilities

def jsonable(o):
    """Convert numpy / odd objects into plain JSON-able python (stable repr)."""
    import numpy as np
    if isinstance(o, dict):
        return {str(k): jsonable(v) for k, v in o.items()}
    if isinstance(o, (list, tuple)):
        return [jsonable(v) for v in o]
    if isinstance(o, (set, frozenset)):
        return sorted((jsonable(v) for v in o), key=repr)
    if isinstance(o, np.ndarray):
        return jsonable(o.tolist())
    if isinstance(o, (np.bool_,)):
        return bool(o)
    if isinstance(o, np.integer):
        return int(o)
    if isinstance(o, np.floating):
        o = float(o)
    if isinstance(o, float):
        if math.isnan(o):
            return 'nan'
        if math.isinf(o):
            return 'inf' if o > 0 else '-inf'
        return o
    if isinstance(o, complex):
        return [o.real, o.imag]
    if o is None or isinstance(o, (bool, int, str)):
        return o
    return repr(o)


def digest(o):
    return hashlib.sha1(json.dumps(jsonable(o), sort_keys=True).encode()).hexdigest()[:16]


class Outcome:
    """Result of one execution."""

    def __init__(self, obs=None, violations=None, nontrivial=True, transitions=1, states=None):
        self.obs = obs
        self.violations = violations or []   # list of dict(sig=, msg=, detail=)
        self.nontrivial = nontrivial
        self.transitions = transitions       # operations applied in this execution
        self.states = states                 # optional list of per-state digests

    def bad(self, sig, msg, **detail):
        self.violations.append(dict(sig=sig, msg=msg, detail=jsonable(detail)))


class Part:
    """Base class of a check part."""
    name = 'part'
    forked = False        # fork one child per execution (isolation from mutation)
    timeout = 60.0        # seconds per execution
    chunk = 1
    nproc = None          # cap on worker processes (allocation-heavy parts scale badly here)

    def cases(self, tier):
        raise NotImplementedError

    def init_worker(self):
        """Build per-worker checkpoint state (called once in each worker)."""

    def execute(self, case):
        raise NotImplementedError

    def describe(self, tier):
        return ''

    def timeout_sig(self, case):
        return 'timeout'

    def crash_sig(self, case):
        return 'process_crash'


class HarnessError(Exception):
    pass


# ---------------------------------------------------------------- executor

_PART = None


def _silence():
    devnull = open(os.devnull, 'w')
    sys.stdout = devnull
    try:
        os.dup2(devnull.fileno(), 1)       # native libraries (SuperLU, KLU) print to fd 1
        if os.environ.get('VMC_DEBUG') != '1':
            os.dup2(devnull.fileno(), 2)
    except OSError:
        pass
    if os.environ.get('VMC_DEBUG') != '1':
        sys.stderr = devnull
        import warnings
        warnings.filterwarnings('ignore')


def _worker_init(part):
    global _PART
    signal.signal(signal.SIGINT, signal.SIG_IGN)
    _silence()
    _PART = part
    try:
        part.init_worker()
    except Exception:
        _PART = ('initfail', traceback.format_exc())


class ExecTimeout(BaseException):
    pass


def _alarm(signum, frame):
    raise ExecTimeout()


def _run_one(part, case):
    t0 = time.time()
    signal.signal(signal.SIGALRM, _alarm)
    signal.setitimer(signal.ITIMER_REAL, part.timeout)
    try:
        out = part.execute(case)
        signal.setitimer(signal.ITIMER_REAL, 0)
        if not isinstance(out, Outcome):
            raise HarnessError('execute must return an Outcome')
        return ('ok', case, out.obs, out.violations, out.nontrivial, out.transitions,
                out.states, time.time() - t0)
    except ExecTimeout:
        try:
            part.init_worker()      # the interrupted execution may have left anything behind
        except Exception:
            pass
        return ('timeout', case, None, None, None, None, None, time.time() - t0)
    except Exception:
        signal.setitimer(signal.ITIMER_REAL, 0)
        return ('err', case, traceback.format_exc(), None, None, None, None, time.time() - t0)


def _forked_one(part, case):
    r, w = os.pipe()
    pid = os.fork()
    if pid == 0:
        os.close(r)
        code = 0
        try:
            res = _run_one(part, case)
            data = pickle.dumps(jsonable_result(res))
            with os.fdopen(w, 'wb') as f:
                f.write(data)
        except BaseException:
            code = 3
        finally:
            os._exit(code)
    os.close(w)
    deadline = time.time() + part.timeout
    chunks = []
    import select
    with os.fdopen(r, 'rb') as f:
        fd = f.fileno()
        os.set_blocking(fd, False)
        while True:
            left = deadline - time.time()
            if left <= 0:
                os.kill(pid, signal.SIGKILL)
                os.waitpid(pid, 0)
                return ('timeout', case, None, None, None, None, None, part.timeout)
            rl, _, _ = select.select([fd], [], [], min(left, 1.0))
            if rl:
                b = f.read()
                if b:
                    chunks.append(b)
                elif b == b'':
                    break
    _, status = os.waitpid(pid, 0)
    data = b''.join(chunks)
    if not data:
        return ('crash', case, f'child exit status {status}', None, None, None, None, 0.0)
    return pickle.loads(data)


def jsonable_result(res):
    kind, case, obs, viol, nontriv, trans, states, dt = res
    return (kind, case, jsonable(obs) if kind == 'ok' else obs, viol, nontriv, trans, states, dt)


def _worker_loop(part, conn):
    """Worker: receive chunks of cases, send one result per case, until None arrives."""
    _worker_init(part)
    p = _PART
    while True:
        try:
            chunk = conn.recv()
        except EOFError:
            break
        if chunk is None:
            break
        for c in chunk:
            if isinstance(p, tuple):
                conn.send(('err', c, 'worker init failed:\n' + p[1], None, None, None, None, 0.0))
            elif p.forked:
                conn.send(_forked_one(p, c))
            else:
                conn.send(jsonable_result(_run_one(p, c)))
        conn.send(('chunk-done',))
    os._exit(0)


class _Worker:
    def __init__(self, part):
        ctx = mp.get_context('fork')
        self.conn, child = ctx.Pipe()
        self.pid = os.fork()
        if self.pid == 0:
            self.conn.close()
            try:
                _worker_loop(part, child)
            finally:
                os._exit(0)
        child.close()
        self.pending = []     # cases sent and not yet answered (in order)

    def send(self, chunk):
        self.pending = list(chunk)
        self.last = time.time()
        self.conn.send(chunk)

    def close(self):
        try:
            self.conn.send(None)
        except Exception:
            pass
        try:
            self.conn.close()
        except Exception:
            pass
        try:
            os.waitpid(self.pid, 0)
        except ChildProcessError:
            pass


def run_cases(part, cases, nproc=None):
    """
    Execute all cases on a pool of forked workers; yield result tuples (unordered).
    A worker that dies (segfault in native code, os._exit) is detected: the case in flight is
    reported as ('crash', ...) and the rest of its chunk is re-queued on a fresh worker.
    """
    import multiprocessing.connection as mpc
    nproc = min(nproc or part.nproc or NPROC, max(1, len(cases)))
    chunk = max(1, part.chunk)
    queue = [cases[i:i + chunk] for i in range(0, len(cases), chunk)]
    queue.reverse()
    workers = [_Worker(part) for _ in range(nproc)]
    idle = list(workers)
    busy = {}
    try:
        while queue or busy:
            while queue and idle:
                w = idle.pop()
                w.send(queue.pop())
                busy[w.conn] = w
            ready = mpc.wait(list(busy), timeout=5.0)
            # watchdog: native code cannot be interrupted by the in-process alarm
            now = time.time()
            for conn, w in list(busy.items()):
                if conn not in ready and now - w.last > part.timeout + 20.0:
                    try:
                        os.kill(w.pid, signal.SIGKILL)
                    except ProcessLookupError:
                        pass
                    w.killed = True
            for conn in ready:
                w = busy[conn]
                try:
                    msg = conn.recv()
                    w.last = time.time()
                except (EOFError, ConnectionResetError, OSError):
                    # worker died while executing w.pending[0]
                    try:
                        _, status = os.waitpid(w.pid, 0)
                    except ChildProcessError:
                        status = -1
                    sig = status & 0x7f if status >= 0 else 0
                    case = w.pending[0] if w.pending else None
                    rest = w.pending[1:]
                    del busy[conn]
                    try:
                        conn.close()
                    except Exception:
                        pass
                    workers.remove(w)
                    nw = _Worker(part)
                    workers.append(nw)
                    idle.append(nw)
                    if rest:
                        queue.append(rest)
                    if case is not None:
                        if getattr(w, 'killed', False):
                            yield ('timeout', case, None, None, None, None, None, part.timeout)
                        else:
                            yield ('crash', case, f'worker process died (wait status {status}, signal {sig})',
                                   None, None, None, None, 0.0)
                    continue
                if msg[0] == 'chunk-done':
                    del busy[conn]
                    idle.append(w)
                    continue
                if w.pending:
                    w.pending.pop(0)
                yield msg
    finally:
        for w in workers:
            w.close()


# ---------------------------------------------------------------- known findings

def load_known():
    path = os.path.join(env.VERIF, 'known_findings.json')
    if not os.path.exists(path):
        return {'findings': [], 'fixed': []}
    with open(path) as f:
        return json.load(f)


def match_known(known, prop, part, sig):
    for k in known.get('findings', []):
        if k['property'] == prop and k['signature'] == sig and k.get('part', part) == part:
            return k
    return None


# ---------------------------------------------------------------- check driver

class CheckRun:
    def __init__(self, prop, tier, seed, level='model_checking'):
        self.prop = prop
        self.tier = tier
        self.seed = seed
        self.level = level
        self.t0 = time.time()
        self.evaluations = 0
        self.transitions = 0
        self.state_digests = set()
        self.nontrivial_digests = set()
        self.samples = []
        self.violations = []     # unknown ones
        self.known_hits = {}     # sig -> (entry, count, first)
        self.harness_errors = []
        self.parts = []
        self.assumptions = []
        self.exhaustive = True
        self.caps = []
        self.known = load_known()
        env.quiet_andes()        # import once in the parent; forked workers inherit the loaded package
        self.rng = random.Random(seed)
        self.audit_runs = 0

    def run_part(self, part, audit=4, sample_n=2):
        tier = self.tier
        cases = list(part.cases(tier))
        order = list(range(len(cases)))
        self.rng.shuffle(order)
        cases = [cases[i] for i in order]
        t0 = time.time()
        n = 0
        first_digest = {}
        clean = []
        pstates = set()
        pviol = 0
        pskipped = 0
        for kind, case, obs, viol, nontriv, trans, states, dt in self._run_confirmed(part, cases):
            n += 1
            self.evaluations += 1
            if kind != 'ok':
                if kind == 'crash':
                    viol = [dict(sig=part.crash_sig(case), msg=f'native crash: {obs}', detail={})]
                    obs, nontriv, trans, states = 'crash', True, 1, None
                elif kind == 'timeout':
                    viol = [dict(sig=part.timeout_sig(case), msg=f'execution did not finish in {part.timeout}s', detail={})]
                    obs, nontriv, trans, states = 'timeout', True, 1, None
                else:
                    self.harness_errors.append(dict(part=part.name, case=jsonable(case), error=obs))
                    continue
            if isinstance(obs, dict) and any(k in obs for k in ('skipped', 'skip')):
                pskipped += 1
            d = digest(obs)
            key = digest(case)
            first_digest[key] = d
            self.transitions += trans or 1
            for s in (states or [d]):
                self.state_digests.add(part.name + ':' + s)
                pstates.add(s)
            if nontriv:
                self.nontrivial_digests.add(part.name + ':' + d)
            if len(self.samples) < 40 and (len([s for s in self.samples if s['part'] == part.name]) < sample_n):
                self.samples.append(dict(part=part.name, case=jsonable(case), observation=_trim(obs)))
            for v in viol:
                pviol += 1
                self._violation(part, case, obs, v)
            if kind == 'ok' and not viol:
                clean.append(case)
        # determinism audit (on executions that completed without a finding: crashes and hangs of native code
        # caused by a recorded defect are not reproducible bit for bit)
        # re-run a few executions in fresh worker processes
        cases = clean
        if audit and cases and not self.harness_errors:
            pick = [cases[i] for i in sorted(self.rng.sample(range(len(cases)), min(audit, len(cases))))]
            for kind, case, obs, viol, nontriv, trans, states, dt in run_cases(part, pick, nproc=2):
                self.audit_runs += 1
                if kind != 'ok':
                    if kind in ('timeout', 'crash') and first_digest.get(digest(case)) == digest(kind):
                        continue
                    self.harness_errors.append(dict(part=part.name, case=jsonable(case),
                                                    error=f'audit re-run failed: {kind} {obs}'))
                    continue
                if digest(obs) != first_digest.get(digest(case)):
                    self.harness_errors.append(dict(part=part.name, case=jsonable(case),
                                                    error='nondeterministic observation on re-run'))
        self.parts.append(dict(part=part.name, executions=n, distinct_observations=len(pstates),
                               violations=pviol, skipped_by_precondition=pskipped, wall_s=round(time.time() - t0, 2),
                               bound=part.describe(tier)))
        print(f'[{self.prop}] part {part.name}: {n} executions, {len(pstates)} distinct observations, '
              f'{pviol} oracle failures' + (f', {pskipped} skipped by a precondition' if pskipped else '') +
              f', {time.time() - t0:.1f}s', flush=True)

    def _run_confirmed(self, part, cases):
        """
        run_cases, but a hang or a dead worker is only reported after it has been confirmed: the case is run again,
        alone on two workers, with four times the time limit (a loaded machine must not turn into an alarm).
        """
        held = []
        for r in run_cases(part, cases):
            if r[0] in ('timeout', 'crash'):
                held.append(r)
            else:
                yield r
        if held:
            keep = part.timeout
            part.timeout = keep * 4
            try:
                again = {digest(r[1]): r for r in run_cases(part, [r[1] for r in held], nproc=2)}
            finally:
                part.timeout = keep
            for r in held:
                r2 = again.get(digest(r[1]), r)
                self.retried = getattr(self, 'retried', 0) + 1
                yield r2

    def _violation(self, part, case, obs, v):
        k = match_known(self.known, self.prop, part.name, v['sig'])
        if k is not None:
            e = self.known_hits.setdefault(part.name + '|' + v['sig'], dict(entry=k, count=0, first=None))
            e['count'] += 1
            if e['first'] is None:
                e['first'] = dict(case=jsonable(case), msg=v['msg'])
            return
        self.violations.append(dict(part=part.name, case=jsonable(case), sig=v['sig'], msg=v['msg'],
                                    detail=v.get('detail'), observation=_trim(obs)))

    def cap(self, text):
        self.exhaustive = False
        self.caps.append(text)

    def finish(self, rule, extra=None):
        wall = time.time() - self.t0
        rdir = os.path.join(env.VERIF, 'replays', self.prop)
        lines = []
        # group unknown violations by signature: one replay file per (part, sig), first = smallest case
        groups = {}
        for v in self.violations:
            groups.setdefault((v['part'], v['sig']), []).append(v)
        for (pname, sig), vs in sorted(groups.items()):
            vs.sort(key=lambda v: (len(json.dumps(v['case'])), json.dumps(v['case'], sort_keys=True)))
            os.makedirs(rdir, exist_ok=True)
            path = os.path.join(rdir, f'{pname}-{digest(sig)}.json')
            with open(path, 'w') as f:
                json.dump(dict(property=self.prop, part=pname, signature=sig, count=len(vs),
                               tier=self.tier, first=vs[0], others=[v['case'] for v in vs[1:20]]), f, indent=1)
            lines.append(f'VIOLATION property={self.prop} replay={path}')
            print(f'  -> [{pname}] {sig}: {vs[0]["msg"]} ({len(vs)} executions)')
        for key, e in sorted(self.known_hits.items()):
            print(f'KNOWN-FINDING: property={self.prop} {e["entry"]["what"]} '
                  f'[{key}; {e["count"]} executions, e.g. {json.dumps(e["first"]["case"])[:160]}]')
        cov = dict(
            states=max(1, len(self.state_digests)),
            transitions=max(1, self.transitions),
            traces_validated_against_impl=self.evaluations,
            evaluations=self.evaluations,
            distinct_nontrivial=len(self.nontrivial_digests),
            rule=rule,
            samples=self.samples[:12] or [{'note': 'no executions'}],
            exhaustive=bool(self.exhaustive and not self.harness_errors),
            parts=self.parts,
            determinism_audit_reruns=self.audit_runs,
            hang_or_crash_reruns=getattr(self, 'retried', 0),
            caps=self.caps,
            known_findings_hit=sorted(self.known_hits),
            explanation=('states = distinct observation digests of real-implementation executions; '
                         'transitions = operations applied to real objects; every execution is a trace '
                         'run against the implementation itself (no separate model to conform).'),
        )
        if extra:
            cov.update(extra)
        ev = dict(property_id=self.prop, tier=self.tier, seed=self.seed, level=self.level,
                  coverage=cov, assumptions=self.assumptions, wall_s=round(wall, 2),
                  violations=len(groups))
        # VMC_EVIDENCE_DIR: trial runs against a seeded change in a scratch worktree write elsewhere
        evdir = os.environ.get('VMC_EVIDENCE_DIR') or os.path.join(env.VERIF, 'evidence')
        os.makedirs(evdir, exist_ok=True)
        with open(os.path.join(evdir, f'{self.prop}.json'), 'w') as f:
            json.dump(ev, f, indent=1)
        for ln in lines:
            print(ln)
        if self.harness_errors:
            print(f'HARNESS-ERROR property={self.prop}: {len(self.harness_errors)} executions failed in the harness')
            for h in self.harness_errors[:3]:
                print(json.dumps(h['case'])[:300])
                print(h['error'][-3000:])
            return 2
        if lines:
            return 1
        print(f'[{self.prop}] OK tier={self.tier} seed={self.seed}: {self.evaluations} executions, '
              f'{len(self.state_digests)} states, {self.transitions} transitions, {wall:.1f}s')
        return 0


def _trim(obs, limit=1500):
    s = json.dumps(jsonable(obs), sort_keys=True)
    if len(s) <= limit:
        return jsonable(obs)
    return s[:limit] + '...'
