"""
Process isolation for checks.

Every check process runs with

* ``HOME`` pointing at a private directory whose ``.andes/pycode`` was generated
  by the *current* working tree of the repository (cached under
  ``/verif/.cache/<sha256 of andes sources>``), so no stale generated code and
  no user rc file can leak in;
* ``TMPDIR`` pointing at a per-run scratch directory that is removed at exit;
* BLAS/OpenMP threads pinned to one, ``PYTHONHASHSEED=0``.

``bootstrap()`` re-executes the interpreter once with that environment.
"""

import fcntl
import hashlib
import os
import shutil
import subprocess
import sys
import tempfile

VERIF = os.path.dirname(os.path.dirname(os.path.abspath(__file__)))
REPO = os.environ.get('VMC_REPO', '/repo')
CACHE = os.path.join(VERIF, '.cache')
SCRATCH_ROOT = os.environ.get('VMC_SCRATCH', '/var/tmp/vmc-scratch')


def tree_hash(repo=None):
    """sha256 over every file below <repo>/andes that can influence generated code."""
    repo = repo or REPO
    h = hashlib.sha256()
    root = os.path.join(repo, 'andes')
    for dirpath, dirnames, filenames in os.walk(root):
        dirnames[:] = sorted(d for d in dirnames if d not in ('__pycache__', 'cases', 'pycode'))
        for fn in sorted(filenames):
            if fn.endswith(('.pyc', '.pyo')):
                continue
            p = os.path.join(dirpath, fn)
            h.update(os.path.relpath(p, root).encode())
            with open(p, 'rb') as f:
                h.update(hashlib.sha256(f.read()).digest())
    return h.hexdigest()[:24]


def _prune_cache(keep):
    """Keep the cache small (an entry is ~3 MB): the current tree, the eight most recently USED others, and never an entry
    used within the last three hours - a check of another tree may be running on it right now."""
    import time
    try:
        entries = [e for e in os.listdir(CACHE) if os.path.isdir(os.path.join(CACHE, e))]
    except FileNotFoundError:
        return
    entries = [e for e in entries if e != keep]
    entries.sort(key=lambda e: os.path.getmtime(os.path.join(CACHE, e)), reverse=True)
    now = time.time()
    for e in entries[8:]:
        if now - os.path.getmtime(os.path.join(CACHE, e)) > 3 * 3600:
            shutil.rmtree(os.path.join(CACHE, e), ignore_errors=True)


def ensure_home(repo=None, verbose=True):
    """
    Return a HOME directory holding pycode generated from the current tree.
    Generation (12 s on 16 cores) happens once per distinct tree content.
    """
    repo = repo or REPO
    key = tree_hash(repo)
    base = os.path.join(CACHE, key)
    home = os.path.join(base, 'home')
    marker = os.path.join(base, 'READY')
    os.makedirs(base, exist_ok=True)
    if os.path.exists(marker):
        try:
            os.utime(base, None)          # "last used" for the pruning rule
        except OSError:
            pass
        return home
    lock = open(os.path.join(base, 'lock'), 'w')
    fcntl.flock(lock, fcntl.LOCK_EX)
    try:
        if os.path.exists(marker):
            return home
        shutil.rmtree(home, ignore_errors=True)
        os.makedirs(home)
        if verbose:
            print(f'[vmc] generating pycode for tree {key} ...', flush=True)
        tmp = tempfile.mkdtemp(prefix='gen-', dir=_scratch_root())
        env = dict(os.environ)
        env.update(HOME=home, TMPDIR=tmp, PYTHONPATH=repo, PYTHONHASHSEED='0')
        env.pop('VMC_BOOT', None)
        code = ("import andes; andes.config_logger(stream_level=40); "
                "ss = andes.System(no_output=True, default_config=True); "
                "import sys; sys.exit(0 if len(ss.models) > 50 else 3)")
        r = subprocess.run([sys.executable, '-c', code], env=env, cwd=tmp,
                           capture_output=True, text=True)
        shutil.rmtree(tmp, ignore_errors=True)
        ok = r.returncode == 0 and os.path.isfile(os.path.join(home, '.andes', 'pycode', '__init__.py'))
        if not ok:
            # generation itself failing is reported by the caller (C02 treats it as a finding)
            with open(os.path.join(base, 'GENFAIL'), 'w') as f:
                f.write(r.stdout[-4000:] + '\n' + r.stderr[-8000:])
            raise RuntimeError('code generation failed for the current tree:\n' + r.stderr[-3000:])
        with open(marker, 'w') as f:
            f.write(key)
        _prune_cache(key)
        return home
    finally:
        fcntl.flock(lock, fcntl.LOCK_UN)
        lock.close()


def _scratch_root():
    os.makedirs(SCRATCH_ROOT, exist_ok=True)
    return SCRATCH_ROOT


def bootstrap():
    """
    Re-exec the current interpreter with the isolated environment unless already done.
    Returns the scratch dir of this run (removed by ``cleanup``).
    """
    if os.environ.get('VMC_BOOT') == '1':
        return os.environ['TMPDIR']
    home = ensure_home()
    scratch = tempfile.mkdtemp(prefix='run-', dir=_scratch_root())
    env = dict(os.environ)
    pp = [REPO, VERIF]
    env.update(
        VMC_BOOT='1', HOME=home, TMPDIR=scratch, VMC_RUN_SCRATCH=scratch,
        PYTHONPATH=os.pathsep.join(pp), PYTHONHASHSEED='0',
        OMP_NUM_THREADS='1', OPENBLAS_NUM_THREADS='1', MKL_NUM_THREADS='1',
        NUMBA_NUM_THREADS='1', MPLBACKEND='Agg', ANDES_VERIF='1',
        PYTHONDONTWRITEBYTECODE='1',
    )
    # run the child, then clean the scratch directory whatever happens
    r = subprocess.run([sys.executable, '-m', 'vmc.check'] + sys.argv[1:], env=env, cwd=VERIF)
    shutil.rmtree(scratch, ignore_errors=True)
    sys.exit(r.returncode)


def quiet_andes():
    """Import andes with logging reduced to errors-off and tqdm output discarded."""
    import logging
    import andes  # NOQA
    andes.config_logger(stream_level=50, file=False)
    logging.getLogger('andes').setLevel(50)
    import andes.shared as sh
    try:
        sh.tqdm.monitor_interval = 0
    except Exception:
        pass
    global _WARM
    if not _WARM:
        _WARM = True
        # import everything andes loads lazily, and the generated code, once in this process so that
        # forked workers inherit it (an execution time-out must never interrupt an import)
        import pandas  # NOQA
        import matplotlib  # NOQA
        import scipy.optimize  # NOQA
        import scipy.integrate  # NOQA
        import scipy.sparse.linalg  # NOQA
        import scipy.linalg  # NOQA
        import tqdm  # NOQA
        import dill  # NOQA
        try:
            import openpyxl  # NOQA
            import xlsxwriter  # NOQA
        except ImportError:
            pass
        for attr in ('pd', 'tqdm', 'newton_krylov', 'fsolve', 'solve_ivp'):
            try:
                getattr(sh, attr).__doc__      # resolve the LazyImport proxies
            except Exception:
                pass
        try:
            ss = andes.System(no_output=True, default_config=True)
            ss.add('Bus', dict(idx=1))
            ss.add('Bus', dict(idx=2))
            ss.add('Line', dict(bus1=1, bus2=2, x=0.1))
            ss.add('Slack', dict(bus=1))
            ss.add('PQ', dict(bus=2, p0=0.1, q0=0.01))
            ss.setup()
            ss.PFlow.run()
        except Exception:
            pass
    return andes


_WARM = False
