"""
Boring reference semantics of the discrete components (no andes imports).
Each function states the documented definition over plain numbers / histories.
"""

import numpy as np


def limiter(u, lower, upper, equal=True, no_lower=False, no_upper=False, sign_lower=1, sign_upper=1,
            enable=True, defaults=(0.0, 1.0, 0.0)):
    """Return (zl, zi, zu) for scalars."""
    zl0, zi0, zu0 = defaults
    if not enable:
        return zl0, zi0, zu0
    lo = sign_lower * lower
    up = sign_upper * upper
    zu = zu0
    zl = zl0
    if not no_upper:
        zu = float(u >= up) if equal else float(u > up)
    if not no_lower:
        zl = float(u <= lo) if equal else float(u < lo)
    zi = float(not (zu or zl))
    return zl, zi, zu


def antiwindup(x, e, lower, upper, prev=(0.0, 0.0), niter=0, lock=4):
    """Return (zl, zi, zu, x_new, e_new) of one check_eq call; prev = (zl_prev, zu_prev)."""
    zu = float(x >= upper and e >= 0)
    zl = float(x <= lower and e <= 0)
    if niter > lock:
        zu = float(zu or prev[1])
        zl = float(zl or prev[0])
    zi = float(not (zu or zl))
    if zi:
        return zl, zi, zu, x, e
    xn = 0.0
    if zu:
        xn += upper
    if zl:
        xn += lower
    return zl, zi, zu, xn, 0.0


def deadband_rt(seq):
    """seq: list of 'b' (below), 'i' (inside), 'a' (above). Return list of (zl, zi, zu, zlr, zur)."""
    out = []
    zlp = zip_ = zup = 0.0
    zlr = zur = 0.0
    for s in seq:
        zl, zi, zu = float(s == 'b'), float(s == 'i'), float(s == 'a')
        # set when previously outside on that side and now inside; hold while the inside-status is unchanged
        zur = float((zup and zi) or (zur and zip_ == zi))
        zlr = float((zlp and zi) or (zlr and zip_ == zi))
        out.append((zl, zi, zu, zlr, zur))
        zlp, zip_, zup = zl, zi, zu
    return out


class History:
    """Distinct-time sample history: repeated time overwrites the last sample; a rewind (t smaller than the last
    time, larger than the one before) moves the last sample to the new time."""

    def __init__(self):
        self.t = []
        self.u = []
        self.rewound = False

    def feed(self, t, u):
        self.rewound = False
        if not self.t:
            self.t.append(t)
            self.u.append(u)
        elif t == self.t[-1]:
            self.u[-1] = u
        elif t < self.t[-1]:
            self.rewound = True
            self.t[-1] = t
            self.u[-1] = u
        else:
            self.t.append(t)
            self.u.append(u)

    def delay_step(self, k):
        if len(self.t) > k:
            return self.u[-1 - k]
        return self.u[0]

    def delay_time(self, T):
        tq = self.t[-1] - T
        if self.t[-1] - self.t[0] <= T or len(self.t) < 2:
            return self.u[0]
        return float(np.interp(tq, self.t, self.u))

    def average_step(self, k):
        if len(self.t) == 1:
            return self.u[0]
        ts = self.t[-(k + 1):]
        us = self.u[-(k + 1):]
        if len(ts) < 2:
            return us[-1]
        num = sum(0.5 * (us[i] + us[i + 1]) * (ts[i + 1] - ts[i]) for i in range(len(ts) - 1))
        return num / (ts[-1] - ts[0])

    def derivative(self):
        if len(self.t) == 1 or self.rewound:
            return 0.0
        d = (self.u[-1] - self.u[-2]) / (self.t[-1] - self.t[-2])
        return 0.0 if abs(d) < 1e-8 else d
