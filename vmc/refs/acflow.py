"""
Independent AC network reference (numpy only, no andes imports).

Consumes the *input* data of a network (per-unit on each device's own MVA / kV base, as written in a case file),
converts to the system base by the textbook ratios and evaluates complex power balance with the standard
pi-model: series admittance y = 1/(r + jx), from-side shunt (g1 + g/2) + j(b1 + b/2), to-side shunt
(g2 + g/2) + j(b2 + b/2), ideal transformer tap:1 with phase shift phi on the from side
(V1' = V1 / (tap * exp(j phi))).
"""

import numpy as np


def zy_coeff(Sn, Vn, Sb, Vb):
    """(impedance factor, admittance factor) from device base to system base."""
    Zn = Vn ** 2 / Sn
    Zb = Vb ** 2 / Sb
    return Zn / Zb, Zb / Zn


class Net:
    def __init__(self, Sb=100.0):
        self.Sb = Sb
        self.bus = {}        # idx -> Vn
        self.lines = []
        self.pq = []
        self.pv = []
        self.slack = []
        self.shunt = []

    def branch_flows(self, V):
        """Complex power leaving each bus into the branches, dict bus idx -> S."""
        S = {b: 0j for b in self.bus}
        allow = {b: 0.0 for b in self.bus}
        for ln in self.lines:
            if not ln.get('u', 1):
                continue
            kz, ky = zy_coeff(ln.get('Sn', 100.0), ln.get('Vn1', self.bus[ln['bus1']]), self.Sb, self.bus[ln['bus1']])
            z = (ln.get('r', 0.0) + 1j * ln.get('x', 0.0)) * kz
            y = 1.0 / z
            yh = ((ln.get('g1', 0.0) + 0.5 * ln.get('g', 0.0)) + 1j * (ln.get('b1', 0.0) + 0.5 * ln.get('b', 0.0))) * ky
            yk = ((ln.get('g2', 0.0) + 0.5 * ln.get('g', 0.0)) + 1j * (ln.get('b2', 0.0) + 0.5 * ln.get('b', 0.0))) * ky
            t = ln.get('tap', 1.0) * np.exp(1j * ln.get('phi', 0.0))
            V1, V2 = V[ln['bus1']], V[ln['bus2']]
            V1p = V1 / t                       # voltage behind the ideal transformer
            I1p = (V1p - V2) * y + V1p * yh    # current into the pi from the from side (secondary quantities)
            I2 = (V2 - V1p) * y + V2 * yk
            S1 = V1p * np.conj(I1p)            # ideal transformer conserves complex power
            S2 = V2 * np.conj(I2)
            S[ln['bus1']] += S1
            S[ln['bus2']] += S2
            # allowance for the 1e-8 added to r and x by the model under test
            da = 2e-8 * abs(y) ** 2 * (abs(V1p) + abs(V2)) ** 2 + 1e-12
            allow[ln['bus1']] += da
            allow[ln['bus2']] += da
        return S, allow

    def loads(self, V):
        S = {b: 0j for b in self.bus}
        for d in self.pq:
            if d.get('u', 1):
                S[d['bus']] += d['p0'] + 1j * d['q0']
        for d in self.shunt:
            if d.get('u', 1):
                _, ky = zy_coeff(d.get('Sn', 100.0), d.get('Vn', self.bus[d['bus']]), self.Sb, self.bus[d['bus']])
                ysh = (d.get('g', 0.0) + 1j * d.get('b', 0.0)) * ky
                S[d['bus']] += abs(V[d['bus']]) ** 2 * np.conj(ysh)
        return S

    def mismatch(self, V, gen):
        """gen: dict bus -> complex injection. Returns dict bus -> (S_gen - S_load - S_branches), allowance."""
        Sb, allow = self.branch_flows(V)
        Sl = self.loads(V)
        return {b: gen.get(b, 0j) - Sl[b] - Sb[b] for b in self.bus}, allow

    # ---- a plain Newton power flow on the same equations (decides "well-posed within normal loading")
    def solve(self, tol=1e-10, max_iter=30):
        buses = list(self.bus)
        sl = [d for d in self.slack if d.get('u', 1)]
        pv = [d for d in self.pv if d.get('u', 1)]
        if len(sl) != 1:
            return None
        slb = sl[0]['bus']
        pvb = {d['bus']: d for d in pv if d['bus'] != slb}
        vset = {slb: sl[0].get('v0', 1.0)}
        for b, d in pvb.items():
            vset[b] = d.get('v0', 1.0)
        pgen = {}
        for d in pv:
            pgen[d['bus']] = pgen.get(d['bus'], 0.0) + d['p0']      # documented: set-point in system base
        ang = [b for b in buses if b != slb]
        mag = [b for b in buses if b not in vset]
        x = np.concatenate([np.zeros(len(ang)), np.ones(len(mag))])

        def unpack(x):
            a = {slb: sl[0].get('a0', 0.0)}
            v = dict(vset)
            for i, b in enumerate(ang):
                a[b] = x[i]
            for i, b in enumerate(mag):
                v[b] = x[len(ang) + i]
            return {b: v[b] * np.exp(1j * a[b]) for b in buses}

        def F(x):
            V = unpack(x)
            mis, _ = self.mismatch(V, {b: pgen.get(b, 0.0) + 0j for b in buses})
            return np.array([mis[b].real for b in ang] + [mis[b].imag for b in mag])
        for it in range(max_iter):
            f = F(x)
            if np.max(np.abs(f)) < tol:
                return unpack(x)
            J = np.zeros((len(x), len(x)))
            for k in range(len(x)):
                d = np.zeros(len(x))
                d[k] = 1e-6
                J[:, k] = (F(x + d) - F(x - d)) / 2e-6
            try:
                x = x - np.linalg.solve(J, f)
            except np.linalg.LinAlgError:
                return None
            if not np.all(np.isfinite(x)):
                return None
        return None
