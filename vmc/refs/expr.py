"""
Independent evaluator for ANDES equation strings (no sympy, no andes).

The declared strings are Python-syntax expressions over parameter / variable / service / flag names and the small
function vocabulary inventoried from the shipped models.  They are evaluated with ``eval`` in a namespace that maps
names to numpy arrays and the vocabulary to the definitions below.  Guard outcomes (relational results feeding
``Indicator`` / ``Piecewise``) are recorded per evaluator so that a run can report whether both branches were seen,
and so that the derivative routine can refuse to difference across a breakpoint.
"""

import numpy as np


class Evaluator:
    def __init__(self):
        self.guards = []          # boolean arrays produced by guard-forming calls during one evaluation
        self.cache = {}
        self.ns = {
            'Indicator': self._indicator, 'Piecewise': self._piecewise,
            'Le': lambda a, b: self._g(np.less_equal(a, b)), 'Lt': lambda a, b: self._g(np.less(a, b)),
            'Ge': lambda a, b: self._g(np.greater_equal(a, b)), 'Gt': lambda a, b: self._g(np.greater(a, b)),
            'Eq': lambda a, b: self._g(np.equal(a, b)), 'Ne': lambda a, b: self._g(np.not_equal(a, b)),
            'And': lambda *a: self._g(np.logical_and.reduce([np.asarray(x, dtype=bool) for x in a])),
            'Or': lambda *a: self._g(np.logical_or.reduce([np.asarray(x, dtype=bool) for x in a])),
            'Not': lambda a: self._g(np.logical_not(a)),
            're': np.real, 'im': np.imag, 'conj': np.conj, 'arg': np.angle,
            'Abs': np.abs, 'abs': np.abs, 'sign': np.sign,
            'safe_div': self._safe_div,
            'atan2': np.arctan2, 'atan': np.arctan, 'tan': np.tan, 'sin': np.sin, 'cos': np.cos,
            'asin': np.arcsin, 'acos': np.arccos, 'sinh': np.sinh, 'cosh': np.cosh, 'tanh': np.tanh,
            'sqrt': self._sqrt, 'exp': np.exp, 'log': self._log, 'ln': self._log,
            'radians': np.radians, 'rad': np.radians, 'deg': np.degrees,
            'maximum': np.maximum, 'minimum': np.minimum, 'Max': np.maximum, 'Min': np.minimum,
            'pi': np.pi, 'E': np.e, 'I': 1j, 'oo': np.inf, 'nan': np.nan, 'true': True, 'false': False,
            'True': True, 'False': False,
        }

    # ---- vocabulary
    def _g(self, cond):
        cond = np.asarray(cond)
        self.guards.append(cond)
        return cond

    @staticmethod
    def _indicator(cond):
        return np.asarray(cond, dtype=float)

    @staticmethod
    def _piecewise(*pairs, **kwargs):
        conds = []
        vals = []
        for val, cond in pairs:
            vals.append(val)
            conds.append(cond)
        shape = np.broadcast(*[np.asarray(v) for v in vals], *[np.asarray(c) for c in conds]).shape
        iscomplex = any(np.iscomplexobj(v) for v in vals)
        out = np.full(shape, np.nan, dtype=complex if iscomplex else float)
        done = np.zeros(shape, dtype=bool)
        for val, cond in zip(vals, conds):
            c = np.broadcast_to(np.asarray(cond, dtype=bool), shape) & ~done
            out = np.where(c, np.broadcast_to(val, shape), out)
            done |= c
        return out

    @staticmethod
    def _safe_div(a, b, out=None):
        a = np.asarray(a, dtype=complex if (np.iscomplexobj(a) or np.iscomplexobj(b)) else float)
        b = np.asarray(b)
        res = np.zeros(np.broadcast(a, b).shape, dtype=a.dtype) if out is None else np.array(np.broadcast_to(out, np.broadcast(a, b).shape), dtype=a.dtype)
        nz = np.broadcast_to(b != 0, res.shape)
        with np.errstate(all='ignore'):
            q = np.broadcast_to(a, res.shape)[nz] / np.broadcast_to(b, res.shape)[nz]
        res[nz] = q
        return res

    @staticmethod
    def _sqrt(x):
        with np.errstate(all='ignore'):
            return np.sqrt(x)

    @staticmethod
    def _log(x):
        with np.errstate(all='ignore'):
            return np.log(x)

    # ---- evaluation
    def compile(self, expr):
        if expr not in self.cache:
            self.cache[expr] = compile(expr.strip().replace('\n', ' '), '<e_str>', 'eval')
        return self.cache[expr]

    def __call__(self, expr, values, n):
        """Evaluate ``expr`` (str or number or None) over the arrays in ``values``; returns an array of length n."""
        self.guards = []
        if expr is None:
            return np.zeros(n)
        if not isinstance(expr, str):
            return np.full(n, expr, dtype=complex if isinstance(expr, complex) else float)
        ns = _Chain(self.ns, values, self)
        with np.errstate(all='ignore'):
            res = eval(self.compile(expr), {'__builtins__': {}}, ns)
        res = np.asarray(res)
        if res.dtype == bool:
            res = res.astype(float)
        return np.broadcast_to(res, (n,)).copy()


class _Chain(dict):
    """Namespace: values first, then vocabulary; comparison operators on arrays are recorded as guards."""

    def __init__(self, vocab, values, ev):
        super().__init__()
        self.vocab = vocab
        self.values = values
        self.ev = ev

    def __missing__(self, key):
        if key in self.values:
            return _Rec(self.values[key], self.ev)
        if key in self.vocab:
            return self.vocab[key]
        raise NameError(key)


class _Rec(np.ndarray):
    """ndarray subclass that records the result of rich comparisons (inline guards such as ``v < 0``)."""

    def __new__(cls, arr, ev):
        obj = np.asarray(arr).view(cls)
        obj._ev = ev
        return obj

    def __array_finalize__(self, obj):
        self._ev = getattr(obj, '_ev', None)

    def _cmp(self, other, op):
        res = np.asarray(op(np.asarray(self), np.asarray(other)))
        if self._ev is not None:
            self._ev.guards.append(res)
        return res

    def __lt__(self, o):
        return self._cmp(o, np.less)

    def __le__(self, o):
        return self._cmp(o, np.less_equal)

    def __gt__(self, o):
        return self._cmp(o, np.greater)

    def __ge__(self, o):
        return self._cmp(o, np.greater_equal)

    def __eq__(self, o):
        return self._cmp(o, np.equal)

    def __ne__(self, o):
        return self._cmp(o, np.not_equal)

    __hash__ = None
