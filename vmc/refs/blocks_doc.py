"""
Documented transfer functions of the linear control blocks, transcribed by hand from the class docstrings of
andes/core/block.py (this table is the trusted part of check C18).

Each entry: class name -> dict(
    params   : ordered names of the numeric parameters varied on the grid,
    fixed    : constructor arguments held fixed (limits far outside the operating range, flags, defaults),
    kwargs   : extra constructor keyword arguments that are not parameters (zero_out=..., name is added),
    out      : name of the documented output variable,
    G        : lambda s, p -> documented transfer function value,
    regions  : {'regular': {param: grid values}, '<bypass name>': {param: grid values}, ...},
    integrating : True if a non-zero constant input has no steady state (steady-state check uses u = 0),
    shift    : name of a constructor argument documented as a reference subtracted from the input: the block must depend on
               (u, shift) only through u - shift, and u = shift is its steady state,
)
"""

# generic positive values + the unit value: a numeric grid of generic points decides polynomial identities, but misses
# degenerate coincidences such as a spurious factor (T - 1) - and 1.0 is the most common "special" parameter value
G4 = [0.3, 0.7, 1.3, 2.1, 1.0]
G4b = [0.4, 0.9, 1.7, 2.6, 1.0]
G4c = [0.25, 0.6, 1.1, 1.9, 1.0]
G4d = [0.35, 0.8, 1.5, 2.3, 1.0]
FAR = dict(lower=-1e3, upper=1e3)


def _pi(s, p):
    return p['kp'] + p['ki'] / s


def _pid(s, p):
    return p['kp'] + p['ki'] / s + s * p['kd'] / (1 + s * p['Td'])


BLOCKS = {
    'Gain': dict(params=['K'], out='y', G=lambda s, p: p['K'] + 0 * s, regions={'regular': dict(K=G4)}),
    'Integrator': dict(params=['T', 'K'], fixed=dict(y0=0.0), out='y', G=lambda s, p: p['K'] / (s * p['T']),
                       regions={'regular': dict(T=G4, K=G4b)}, integrating=True),
    'IntegratorAntiWindup': dict(params=['T', 'K'], fixed=dict(y0=0.0, **FAR), out='y',
                                 G=lambda s, p: p['K'] / (s * p['T']),
                                 regions={'regular': dict(T=G4, K=G4b)}, integrating=True),
    'Lag': dict(params=['T', 'K', 'D'], out='y', G=lambda s, p: p['K'] / (p['D'] + s * p['T']),
                regions={'regular': dict(T=G4, K=G4b, D=G4c)}),
    'LagFreeze': dict(params=['T', 'K'], fixed=dict(freeze=0.0), out='y', G=lambda s, p: p['K'] / (1 + s * p['T']),
                      regions={'regular': dict(T=G4, K=G4b)}),
    'LagAntiWindup': dict(params=['T', 'K', 'D'], fixed=dict(**FAR), out='y',
                          G=lambda s, p: p['K'] / (p['D'] + s * p['T']),
                          regions={'regular': dict(T=G4, K=G4b, D=G4c)}),
    'LagAWFreeze': dict(params=['T', 'K'], fixed=dict(freeze=0.0, **FAR), out='y',
                        G=lambda s, p: p['K'] / (1 + s * p['T']), regions={'regular': dict(T=G4, K=G4b)}),
    'LagRate': dict(params=['T', 'K', 'D'], fixed=dict(rate_lower=-1e3, rate_upper=1e3), out='y',
                    G=lambda s, p: p['K'] / (p['D'] + s * p['T']),
                    regions={'regular': dict(T=G4, K=G4b, D=G4c)}),
    'LagAntiWindupRate': dict(params=['T', 'K', 'D'], fixed=dict(rate_lower=-1e3, rate_upper=1e3, **FAR), out='y',
                              G=lambda s, p: p['K'] / (p['D'] + s * p['T']),
                              regions={'regular': dict(T=G4, K=G4b, D=G4c)}),
    'Washout': dict(params=['T', 'K'], out='y', G=lambda s, p: s * p['K'] / (1 + s * p['T']),
                    regions={'regular': dict(T=G4, K=G4b)}),
    'WashoutOrLag': dict(params=['T', 'K'], kwargs=dict(zero_out=True), out='y',
                         G=lambda s, p: (s * p['K'] / (1 + s * p['T'])) if p['K'] > 0 else 1 / (1 + s * p['T']),
                         regions={'regular': dict(T=G4, K=G4b), 'K=0 (lag)': dict(T=G4, K=[0.0])}),
    'Lag2ndOrd': dict(params=['K', 'T1', 'T2'], out='y',
                      G=lambda s, p: p['K'] / (1 + s * p['T1'] + s * s * p['T2']),
                      regions={'regular': dict(K=G4, T1=G4b, T2=G4c)}),
    'LeadLag': dict(params=['T1', 'T2', 'K'], kwargs=dict(zero_out=True), out='y',
                    G=lambda s, p: p['K'] * (1 + s * p['T1']) / (1 + s * p['T2']),
                    regions={'regular': dict(T1=G4, T2=G4b, K=G4c), 'T1=0': dict(T1=[0.0], T2=G4b, K=G4c),
                             'T1=T2=0 (gain)': dict(T1=[0.0], T2=[0.0], K=G4c)}),
    'LeadLag2ndOrd': dict(params=['T1', 'T2', 'T3', 'T4'], kwargs=dict(zero_out=True), out='y',
                          G=lambda s, p: (1 + s * p['T3'] + s * s * p['T4']) / (1 + s * p['T1'] + s * s * p['T2']),
                          regions={'regular': dict(T1=G4, T2=G4b, T3=G4c, T4=G4d),
                                   'T3=T4=0': dict(T1=G4, T2=G4b, T3=[0.0], T4=[0.0]),
                                   'T1=0': dict(T1=[0.0], T2=G4b, T3=G4c, T4=G4d),
                                   'all zero (unity)': dict(T1=[0.0], T2=[0.0], T3=[0.0], T4=[0.0])}),
    'LeadLagLimit': dict(params=['T1', 'T2'], fixed=dict(**FAR), out='y',
                         G=lambda s, p: (1 + s * p['T1']) / (1 + s * p['T2']),
                         regions={'regular': dict(T1=G4, T2=G4b), 'T1=0': dict(T1=[0.0], T2=G4b)}),
    'PIController': dict(shift='ref', params=['kp', 'ki'], out='y', G=_pi, regions={'regular': dict(kp=G4, ki=G4b)},
                         integrating=True),
    'PIDController': dict(shift='ref', params=['kp', 'ki', 'kd', 'Td'], out='y', G=_pid,
                          regions={'regular': dict(kp=G4, ki=G4b, kd=G4c, Td=G4d)}, integrating=True),
    'PIAWHardLimit': dict(shift='ref', params=['kp', 'ki'], fixed=dict(aw_lower=-1e3, aw_upper=1e3, **FAR), out='y', G=_pi,
                          regions={'regular': dict(kp=G4, ki=G4b)}, integrating=True),
    'PIDAWHardLimit': dict(shift='ref', params=['kp', 'ki', 'kd', 'Td'], fixed=dict(aw_lower=-1e3, aw_upper=1e3, **FAR), out='y',
                           G=_pid, regions={'regular': dict(kp=G4, ki=G4b, kd=G4c, Td=G4d)}, integrating=True),
    'PITrackAW': dict(shift='ref', params=['kp', 'ki', 'ks'], fixed=dict(**FAR), out='y', G=_pi,
                      regions={'regular': dict(kp=G4, ki=G4b, ks=G4c)}, integrating=True),
    'PIDTrackAW': dict(shift='ref', params=['kp', 'ki', 'kd', 'Td', 'ks'], fixed=dict(**FAR), out='y', G=_pid,
                       regions={'regular': dict(kp=G4[:3], ki=G4b[:3], kd=G4c[:3], Td=G4d[:3], ks=G4[:2])},
                       integrating=True),
    'PITrackAWFreeze': dict(shift='ref', params=['kp', 'ki', 'ks'], fixed=dict(freeze=0.0, **FAR), out='y', G=_pi,
                            regions={'regular': dict(kp=G4, ki=G4b, ks=G4c)}, integrating=True),
    'PIFreeze': dict(shift='ref', params=['kp', 'ki'], fixed=dict(freeze=0.0), out='y', G=_pi,
                     regions={'regular': dict(kp=G4, ki=G4b)}, integrating=True),
}

S_POINTS = [0.5j, 2.0j, 7.0j, 0.3 + 1.1j, 1.7 - 0.4j, 0.9 + 0j, 3.1 + 2.2j]
