"""
C12 - island detection and status propagation match the network graph.

graph   : complete graph K_n (n = 2..4 quick, ..5 thorough) + one parallel line + one jumper;
          ALL on/off patterns of the series elements (= all sub-multigraphs) x ALL enable patterns
          of three slack generators; ``System.connectivity`` against union-find.
pflow   : 4-bus system with loads everywhere; all patterns that leave one energised island with
          the slack plus isolated buses: power flow must converge and equal the reduced network.
busoff  : buses carrying devices of several models per group; all subsets of <= 2 (3) buses
          switched off through Bus.alter / Bus.set; exactly the attached devices go off.
events  : static 4-bus ring, all pairs of line toggles during a (static) simulation; island
          report after the run equals the final graph.
"""

import itertools

import numpy as np

from vmc.core import Outcome, Part
from vmc import systems
from vmc.rearm import Checkpoint


# ------------------------------------------------------------------ reference: union-find

def components(n, edges):
    """edges: list of (i, j) in service. Returns (isolated list, list of frozensets size>=2)."""
    parent = list(range(n))

    def find(a):
        while parent[a] != a:
            parent[a] = parent[parent[a]]
            a = parent[a]
        return a
    deg = [0] * n
    for i, j in edges:
        deg[i] += 1
        deg[j] += 1
        ra, rb = find(i), find(j)
        if ra != rb:
            parent[ra] = rb
    comp = {}
    for k in range(n):
        comp.setdefault(find(k), set()).add(k)
    iso = [k for k in range(n) if deg[k] == 0]
    sets = [frozenset(c) for c in comp.values() if len(c) >= 2]
    return iso, sets


def build_kn(n, slack_buses=(0, 1), jumper=True, parallel=True, loads=False, extra=None):
    ss = systems.new_system()
    for k in range(n):
        ss.add('Bus', dict(idx=k + 1, name=f'B{k + 1}', Vn=110))
    elems = []   # (model, uid, i, j)
    nl = 0
    for i, j in itertools.combinations(range(n), 2):
        ss.add('Line', dict(idx=f'L{nl}', bus1=i + 1, bus2=j + 1, x=0.1 + 0.01 * nl, r=0.005, Vn1=110, Vn2=110))
        elems.append(('Line', nl, i, j))
        nl += 1
    if parallel:
        ss.add('Line', dict(idx=f'L{nl}', bus1=1, bus2=2, x=0.2, r=0.01, Vn1=110, Vn2=110))
        elems.append(('Line', nl, 0, 1))
        nl += 1
    if jumper and n >= 3:
        ss.add('Jumper', dict(idx='J0', bus1=n - 1, bus2=n))
        elems.append(('Jumper', 0, n - 2, n - 1))
    for s, b in enumerate(slack_buses):
        ss.add('Slack', dict(idx=f'S{s}', bus=b + 1, v0=1.0, a0=0.0, Vn=110))
    if loads:
        for k in range(n):
            ss.add('PQ', dict(idx=f'P{k}', bus=k + 1, p0=0.1 + 0.02 * k, q0=0.03, Vn=110))
    if extra:
        extra(ss)
    ss.setup()
    return ss, elems


class Graph(Part):
    name = 'graph'
    chunk = 64
    timeout = 60.0

    def describe(self, tier):
        nmax = 4 if tier == 'quick' else 5
        return (f'K_n for n=2..{nmax} plus a parallel line and a jumper: all 2^L on/off patterns x all 2^3 slack '
                f'enable patterns (slacks on buses 1, 2 and n)')

    def sizes(self, tier):
        return [2, 3, 4] if tier == 'quick' else [2, 3, 4, 5]

    def cases(self, tier):
        out = []
        for n in self.sizes(tier):
            nel = n * (n - 1) // 2 + 1 + (1 if n >= 3 else 0)
            for pat in range(2 ** nel):
                for sl in range(8):
                    out.append([n, pat, sl])
        return out

    def __init__(self, tier='quick'):
        self.tier = tier

    def init_worker(self):
        self.sys = {}
        for n in self.sizes(self.tier):
            self.get(n)

    def get(self, n):
        if n not in self.sys:
            sb = (0, 1, n - 1) if n >= 3 else (0, 1, 1)
            self.sys[n] = build_kn(n, slack_buses=sb)
        return self.sys[n]

    def execute(self, case):
        n, pat, sl = case
        ss, elems = self.get(n)
        on = []
        for k, (model, uid, i, j) in enumerate(elems):
            u = (pat >> k) & 1
            getattr(ss, model).u.v[uid] = u
            if u:
                on.append((i, j))
        slack_bus = [0, 1, n - 1 if n >= 3 else 1]
        for s in range(3):
            ss.Slack.u.v[s] = (sl >> s) & 1
        out = Outcome()
        iso, sets = components(n, on)
        try:
            ss.connectivity(info=False)
        except Exception as e:
            cls = 'all_isolated' if len(iso) == n else 'other'
            out.bad(f'connectivity_raises:{type(e).__name__}:{cls}',
                    f'connectivity() raised {type(e).__name__}: {e} for in-service edges {on}', n=n)
            out.obs = dict(exc=type(e).__name__, iso=iso)
            return out
        got_iso = sorted(int(b) for b in ss.Bus.islanded_buses)
        got_sets = [frozenset(int(b) for b in s) for s in ss.Bus.island_sets]
        if got_iso != sorted(iso):
            out.bad('isolated_buses_wrong', f'islanded_buses={got_iso}, graph says {sorted(iso)}; edges {on}')
        if len(set(got_sets)) != len(got_sets):
            out.bad('island_reported_twice', f'island_sets={[sorted(s) for s in got_sets]}; edges {on}')
        if set(got_sets) != set(sets):
            out.bad('island_sets_wrong', f'island_sets={[sorted(s) for s in got_sets]}, graph says '
                    f'{[sorted(s) for s in sets]}; edges {on}')
        else:
            cnt = {}
            for s in range(3):
                if (sl >> s) & 1:
                    for c in sets:
                        if slack_bus[s] in c:
                            cnt[c] = cnt.get(c, 0) + 1
            exp_nosw = {c for c in sets if cnt.get(c, 0) == 0}
            exp_msw = {c for c in sets if cnt.get(c, 0) >= 2}
            g_nosw = {got_sets[i] for i in ss.Bus.nosw_island}
            g_msw = {got_sets[i] for i in ss.Bus.msw_island}
            if g_nosw != exp_nosw:
                out.bad('no_slack_classification_wrong', f'nosw={[sorted(s) for s in g_nosw]} expected '
                        f'{[sorted(s) for s in exp_nosw]}; slack pattern {sl:03b} edges {on}')
            if g_msw != exp_msw:
                out.bad('multi_slack_classification_wrong', f'msw={[sorted(s) for s in g_msw]} expected '
                        f'{[sorted(s) for s in exp_msw]}; slack pattern {sl:03b} edges {on}')
        if int(ss.Bus.n_islanded_buses) != len(iso):
            out.bad('n_islanded_wrong', f'n_islanded_buses={ss.Bus.n_islanded_buses} vs {len(iso)}')
        out.obs = dict(iso=got_iso, sets=sorted(sorted(s) for s in got_sets),
                       nosw=sorted(ss.Bus.nosw_island), msw=sorted(ss.Bus.msw_island))
        out.nontrivial = len(sets) + len(iso) > 1
        return out


def set_partitions(items):
    """All set partitions of a list (Bell(6) = 203, Bell(7) = 877)."""
    if not items:
        yield []
        return
    first, rest = items[0], items[1:]
    for part in set_partitions(rest):
        for k in range(len(part)):
            yield part[:k] + [[first] + part[k]] + part[k + 1:]
        yield [[first]] + part


class Partitions(Graph):
    """Larger bus counts through a structured family: every set partition of the buses is realised as islands (a path through
    each block in numbering order, or a star from its lowest bus), so that many islands with interleaved numbering occur."""
    name = 'partitions'

    def describe(self, tier):
        ns = self.sizes(tier)
        return (f'n in {ns} buses: every set partition of the buses (Bell numbers 203 / 877) realised as islands by a path or a '
                f'star inside each block x all 2^3 slack enable patterns (slacks on buses 1, 2 and n); same oracle as part graph')

    def sizes(self, tier):
        return [6] if tier == 'quick' else [6, 7]

    def cases(self, tier):
        out = []
        for n in self.sizes(tier):
            pos = {}
            k = 0
            for i, j in itertools.combinations(range(n), 2):
                pos[(i, j)] = k
                k += 1
            seen = set()
            for part in set_partitions(list(range(n))):
                for shape in ('path', 'star'):
                    pat = 0
                    for block in part:
                        b = sorted(block)
                        edges = list(zip(b[:-1], b[1:])) if shape == 'path' else [(b[0], x) for x in b[1:]]
                        for e in edges:
                            pat |= 1 << pos[e]
                    if pat in seen:
                        continue
                    seen.add(pat)
                    for sl in range(8):
                        out.append([n, pat, sl])
        return out


class PFlowIsolated(Part):
    """Isolated buses (with load on them) are neutralised: the energised part still solves."""
    name = 'pflow'
    chunk = 4
    timeout = 180.0
    nproc = 8

    def timeout_sig(self, case):
        return 'pflow_hangs_with_isolated_bus'

    def describe(self, tier):
        return ('K_4 + parallel + jumper with a PQ load on every bus and the slack on bus 1: every on/off pattern whose '
                'in-service graph is one island containing the slack plus >=0 isolated buses; ipadd in {1,0}')

    def cases(self, tier):
        n = 4
        nel = n * (n - 1) // 2 + 2
        out = []
        _, elems = None, self._elems(n)
        for pat in range(2 ** nel):
            on = [(i, j) for k, (m, u, i, j) in enumerate(elems) if (pat >> k) & 1]
            iso, sets = components(n, on)
            if len(sets) == 1 and 0 in sets[0]:
                for ipadd in (1, 0):
                    out.append([pat, ipadd])
        return out

    @staticmethod
    def _elems(n):
        el = [('Line', k, i, j) for k, (i, j) in enumerate(itertools.combinations(range(n), 2))]
        el.append(('Line', len(el), 0, 1))
        el.append(('Jumper', 0, n - 2, n - 1))
        return el

    def init_worker(self):
        self.elems = self._elems(4)

    def execute(self, case):
        pat, ipadd = case
        ss, _ = build_kn(4, slack_buses=(0,), loads=True)     # fresh system per execution
        out = Outcome()
        on = []
        for k, (model, uid, i, j) in enumerate(self.elems):
            u = (pat >> k) & 1
            getattr(ss, model).u.v[uid] = u
            if u:
                on.append((i, j))
        iso, sets = components(4, on)
        ss.config.ipadd = ipadd
        try:
            ok = ss.PFlow.run()
        except Exception as e:
            out.bad(f'pflow_raises:{type(e).__name__}', f'PFlow.run raised {e} with isolated buses {iso}')
            out.obs = dict(exc=type(e).__name__)
            return out
        v = np.array(ss.Bus.v.v)
        a = np.array(ss.Bus.a.v)
        if not ok:
            out.bad('pflow_diverges_with_isolated_bus', f'PFlow did not converge; isolated={iso}, edges={on}')
        elif not (np.all(np.isfinite(v)) and np.all(np.isfinite(a))):
            out.bad('nonfinite_voltage', f'non-finite bus voltage with isolated={iso}')
        elif ok:
            # reference: the same network without the isolated buses' devices solved from scratch
            ref = self.reference(pat, iso)
            live = [k for k in range(4) if k not in iso]
            dv = max(abs(v[k] - ref[0][k]) for k in live)
            da = max(abs(a[k] - ref[1][k]) for k in live)
            if max(dv, da) > 1e-6:
                out.bad('energised_part_differs', f'energised buses differ from the reduced network by {max(dv, da):.2e}; '
                        f'isolated={iso}')
        out.obs = dict(ok=bool(ok), iso=iso, v=np.round(v, 9).tolist())
        out.nontrivial = len(iso) > 0
        return out

    def reference(self, pat, iso):
        """Reduced network: isolated buses removed (built fresh through the public API)."""
        key = (pat, tuple(iso))
        cache = self.__dict__.setdefault('_refcache', {})
        if key in cache:
            return cache[key]
        ss = systems.new_system()
        live = [k for k in range(4) if k not in iso]
        for k in live:
            ss.add('Bus', dict(idx=k + 1, name=f'B{k + 1}', Vn=110))
        nl = 0
        for kk, (model, uid, i, j) in enumerate(self.elems):
            if model == 'Line':
                x, r = (0.2, 0.01) if uid == 6 else (0.1 + 0.01 * uid, 0.005)
                if (pat >> kk) & 1:
                    ss.add('Line', dict(idx=f'L{uid}', bus1=i + 1, bus2=j + 1, x=x, r=r, Vn1=110, Vn2=110))
            elif (pat >> kk) & 1:
                ss.add('Jumper', dict(idx='J0', bus1=i + 1, bus2=j + 1))
        ss.add('Slack', dict(idx='S0', bus=1, v0=1.0, a0=0.0, Vn=110))
        for k in live:
            ss.add('PQ', dict(idx=f'P{k}', bus=k + 1, p0=0.1 + 0.02 * k, q0=0.03, Vn=110))
        ss.setup()
        ok = ss.PFlow.run()
        v = {k: float(ss.Bus.v.v[i]) for i, k in enumerate(live)}
        a = {k: float(ss.Bus.a.v[i]) for i, k in enumerate(live)}
        cache[key] = (v, a, ok)
        return cache[key]


# ------------------------------------------------------------------ bus-off propagation

def busoff_system(pre_off=()):
    ss = systems.new_system()
    for k in range(4):
        ss.add('Bus', dict(idx=k + 1, name=f'B{k + 1}', Vn=110, u=0 if (k + 1) in pre_off else 1))
    lines = [(1, 2), (2, 3), (3, 4), (4, 1), (1, 3)]
    for k, (i, j) in enumerate(lines):
        ss.add('Line', dict(idx=f'L{k}', bus1=i, bus2=j, x=0.1, r=0.01, Vn1=110, Vn2=110))
    ss.add('Jumper', dict(idx='J0', bus1=2, bus2=4))
    ss.add('Slack', dict(idx='S0', bus=1, v0=1.0, a0=0.0, Vn=110))
    ss.add('PV', dict(idx='G1', bus=1, p0=0.1, v0=1.0, Vn=110))      # PV + Slack on one bus
    ss.add('PV', dict(idx='G2', bus=2, p0=0.2, v0=1.0, Vn=110))
    ss.add('PV', dict(idx='G3', bus=3, p0=0.1, v0=1.0, Vn=110))
    ss.add('PQ', dict(idx='P2', bus=2, p0=0.2, q0=0.05, Vn=110))
    ss.add('PQ', dict(idx='P3', bus=3, p0=0.2, q0=0.05, Vn=110))
    ss.add('PQ', dict(idx='P3b', bus=3, p0=0.1, q0=0.02, Vn=110))
    ss.add('PQ', dict(idx='P4', bus=4, p0=0.1, q0=0.02, Vn=110))
    ss.add('Shunt', dict(idx='SH3', bus=3, b=0.05, Vn=110))
    ss.add('ShuntSw', dict(idx='SW4', bus=4, b=0.01, Vn=110, gs='0.0', bs='0.01', ns='1', vref=1.0, dv=0.05))
    ss.add('Shunt', dict(idx='SH1', bus=1, b=0.02, Vn=110))
    attach = {
        'Line': {f'L{k}': {i, j} for k, (i, j) in enumerate(lines)},
        'Jumper': {'J0': {2, 4}},
        'Slack': {'S0': {1}}, 'PV': {'G1': {1}, 'G2': {2}, 'G3': {3}},
        'PQ': {'P2': {2}, 'P3': {3}, 'P3b': {3}, 'P4': {4}},
        'Shunt': {'SH3': {3}, 'SH1': {1}}, 'ShuntSw': {'SW4': {4}},
    }
    return ss, attach


class BusOff(Part):
    name = 'busoff'
    chunk = 1
    timeout = 180.0
    nproc = 8

    def describe(self, tier):
        k = 2 if tier == 'quick' else 3
        return (f'4-bus system, several models per group on one bus (PV+Slack, Shunt+ShuntSw, two PQ) and buses with '
                f'no device of some group; all bus subsets of size <= {k} switched off via alter / set / before setup; '
                f'then PFlow.init')

    def cases(self, tier):
        k = 2 if tier == 'quick' else 3
        out = []
        for r in range(1, k + 1):
            for sub in itertools.combinations([1, 2, 3, 4], r):
                for how in ('alter', 'set', 'presetup', 'alter_seq'):
                    out.append([list(sub), how])
        return out

    def execute(self, case):
        off, how = case
        out = Outcome()
        ss, attach = busoff_system(pre_off=off if how == 'presetup' else ())
        try:
            if how == 'presetup':
                ss.setup()
            else:
                ss.setup()
                if how == 'alter':
                    ss.Bus.alter('u', off, [0] * len(off))
                elif how == 'set':
                    ss.Bus.set('u', off, 'v', [0] * len(off))
                else:
                    for b in off:
                        ss.Bus.alter('u', b, 0)
            ss.PFlow.init()
        except Exception as e:
            import traceback
            tb = traceback.extract_tb(e.__traceback__)
            where = tb[-1].name if tb else '?'
            out.bad(f'busoff_raises:{type(e).__name__}@{where}:n_off={len(off)}',
                    f'switching off buses {off} via {how} raised {type(e).__name__}: {e}')
            out.obs = dict(exc=type(e).__name__, where=where)
            return out
        got = {}
        wrong_on, wrong_off = [], []
        for model, devs in attach.items():
            mdl = getattr(ss, model)
            for idx, buses in devs.items():
                u = float(mdl.get('u', idx, 'v'))
                got[f'{model}.{idx}'] = u
                should_off = bool(buses & set(off))
                if should_off and u != 0:
                    wrong_on.append(f'{model}.{idx}')
                if (not should_off) and u != 1:
                    wrong_off.append(f'{model}.{idx}')
        if wrong_on:
            out.bad('attached_device_left_on:' + ','.join(sorted({w.split('.')[0] for w in wrong_on})),
                    f'buses {off} off via {how}: still on: {wrong_on}')
        if wrong_off:
            out.bad('unattached_device_switched_off:' + ','.join(sorted({w.split('.')[0] for w in wrong_off})),
                    f'buses {off} off via {how}: wrongly off: {wrong_off}')
        out.obs = got
        return out


class Events(Part):
    """Island report after switching events during a static simulation."""
    name = 'events'
    chunk = 4
    timeout = 120.0

    def describe(self, tier):
        return ('4-bus ring + chord, slack on bus 1, no dynamics: all multisets of <= 2 line toggles at t in '
                '{0.2, 0.5}, each made by a Toggle device or by a perturbation function raising TDS.custom_event; island report after the run equals the components of the final in-service graph')

    LINES = [(0, 1), (1, 2), (2, 3), (3, 0), (0, 2)]

    def init_worker(self):
        ss = systems.new_system()
        for k in range(4):
            ss.add('Bus', dict(idx=k + 1, name=f'B{k + 1}', Vn=110))
        for k, (i, j) in enumerate(self.LINES):
            ss.add('Line', dict(idx=f'L{k}', bus1=i + 1, bus2=j + 1, x=0.1, r=0.01, Vn1=110, Vn2=110))
        ss.add('Slack', dict(idx='S0', bus=1, v0=1.0, a0=0.0, Vn=110))
        for k in range(1, 4):
            ss.add('PQ', dict(idx=f'P{k}', bus=k + 1, p0=0.1, q0=0.02, Vn=110))
        for k in range(3):
            ss.add('Toggle', dict(idx=f'T{k}', model='Line', dev='L0', t=-1, u=0))
        ss.setup()
        systems.quiet_tds(ss)
        assert ss.PFlow.run()
        self.ss = ss
        self.cp = Checkpoint(ss)

    def cases(self, tier):
        ev = [(l, t) for l in range(5) for t in (0.2, 0.5)]
        out = [[]]
        kmax = 2 if tier == 'quick' else 3
        for r in range(1, kmax + 1):
            for c in itertools.combinations(ev, r):
                out.append([list(x) for x in c])
        # the same switchings made by a perturbation function that announces itself with TDS.custom_event (the documented
        # way, cases/ieee14/pert.py), alone and mixed with Toggle devices: [line, time, 'pert']
        for r in range(1, kmax + 1):
            for c in itertools.combinations(ev, r):
                for kinds in itertools.product(('toggle', 'pert'), repeat=r):
                    if 'pert' in kinds:
                        out.append([list(x) + [k] for x, k in zip(c, kinds)])
        return out

    def execute(self, case):
        ss = self.ss
        self.cp.restore()
        out = Outcome()
        status = [1] * 5
        perts = []
        for k, ev in enumerate(case):
            l, t = ev[0], ev[1]
            if len(ev) > 2 and ev[2] == 'pert':
                perts.append([l, t, False])
            else:
                ss.Toggle.dev.v[k] = f'L{l}'
                ss.Toggle.t.v[k] = t
                ss.Toggle.u.v[k] = 1
            status[l] = 1 - status[l]
        if perts:
            def pert(t, system):
                for p in perts:
                    if not p[2] and t >= p[1]:
                        p[2] = True
                        cur = system.Line.get('u', f'L{p[0]}', 'v')
                        system.Line.alter('u', f'L{p[0]}', 1 - cur)
                        system.TDS.custom_event = True
            ss.TDS.callpert = pert
        ss.connectivity(info=False)      # normalise the island report left by the previous execution
        ss.TDS.config.tf = 0.7
        ss.TDS.config.tstep = 0.1
        try:
            ok = ss.TDS.run(no_summary=True)
        except Exception as e:
            import traceback
            tb = traceback.extract_tb(e.__traceback__)
            where = tb[-1].name if tb else '?'
            on = [self.LINES[k] for k in range(5) if status[k]]
            iso, sets = components(4, on)
            out.bad(f'run_raises:{type(e).__name__}@{where}', f'TDS.run raised {type(e).__name__}: {e}; '
                    f'final isolated buses {iso}')
            out.obs = dict(exc=type(e).__name__, where=where)
            return out
        on = [self.LINES[k] for k in range(5) if status[k]]
        iso, sets = components(4, on)
        live_status = [int(x) for x in ss.Line.u.v]
        got_iso = sorted(int(b) for b in ss.Bus.islanded_buses)
        got_sets = {frozenset(int(b) for b in s) for s in ss.Bus.island_sets}
        # well-posed at every stage: each island with two or more buses contains the slack bus (bus 0); an island of loads
        # without any source has no solution and is not what "neutralised" is about
        well_posed = True
        st = [1] * 5
        for tt in sorted({ev[1] for ev in case}):
            for ev in case:
                if ev[1] == tt:
                    st[ev[0]] = 1 - st[ev[0]]
            _, sets_t = components(4, [self.LINES[k] for k in range(5) if st[k]])
            if any(0 not in c for c in sets_t):
                well_posed = False
        if not ok and well_posed:
            out.bad('run_failed_after_switching', f'after switchings {case}: TDS.run returned {ok} ({ss.TDS.err_msg!r}); buses isolated '
                    f'by a switching must be neutralised, not spoil convergence')
        if live_status == status and case:
            if got_iso != sorted(iso):
                out.bad('isolated_after_event_wrong', f'after toggles {case}: islanded_buses={got_iso}, graph {iso}')
            if got_sets != set(sets):
                out.bad('islands_after_event_wrong', f'after toggles {case}: island_sets='
                        f'{[sorted(s) for s in got_sets]}, graph {[sorted(s) for s in sets]}')
        out.obs = dict(ok=bool(ok), iso=got_iso, sets=sorted(sorted(s) for s in got_sets), status=live_status)
        out.nontrivial = bool(case)
        return out


def parts(tier):
    return [Graph(tier), Partitions(tier), PFlowIsolated(), BusOff(), Events()]


def run(run, only=None):
    for p in parts(run.tier):
        if only and p.name != only:
            continue
        run.run_part(p)
    run.assumptions += ['series devices = Line and Jumper (Fortescue not generated)',
                        'switching a bus ON after setup is documented as unsupported and not in the alphabet']
    rule = ('all sub-multigraphs of K_n (+parallel line, +jumper) x all slack enable patterns against union-find; '
            'all single-island-plus-isolated patterns through the real power flow against the reduced network; all bus '
            'subsets switched off through the public calls; all pairs of line toggles in a static simulation. '
            'non-trivial = more than one component / at least one isolated bus / at least one switching')
    return run.finish(rule)
