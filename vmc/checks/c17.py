"""
C17 - failure is reported as failure.

Fault enumeration with the same explorer.
pflow : ill-posed inputs on small networks (overload x5 / x20, island without slack, zero-impedance branch, tap = 0,
        NaN / inf parameters, iteration limit too small, loads at every bus scaled to the nose) x Newton variant x
        routine sequence {pflow; pflow,tds; pflow,eig; pflow,tds,eig}, through the API and through the CLI entry point.
slip  : two classical machines that keep converging while slipping poles (light machine x fault bus x fault duration x
        machine order x method): the stability criterion, recomputed from the stored angles, must stop the run.
tds   : a solver answer of NaN injected at every one of the first K linear solves (<= 1 injection), forced rejection
        with a fixed step and shrinkt = 0, unstable disturbances (long fault, generator trip), inconsistent dynamic
        data (tiny machine rating, negative inertia, machine on a load bus with no generator).
files : every prefix of a small json case cut at a token boundary, truncated xlsx, empty file, wrong extension,
        missing file; through andes.load and the CLI entry point.
Oracle: a returned True implies that the routine's own residual test, recomputed by the harness, passes and that the
state is finite; if the independent reference says "no solution / NaN" the flag must be False, the exit code non-zero
and dependent routines must refuse (return False without raising). While loading data, an exception or None counts as a
reported failure; a routine's run() must return its flag, an exception escaping it is a violation.
"""

import itertools
import json
import os
import tempfile

import numpy as np

from vmc.core import Outcome, Part
from vmc import systems
from vmc.checks.c01 import make_spec, to_net

FAULTS = ['none', 'overload5', 'overload20', 'island_noslack', 'zero_impedance', 'tap0', 'nan_load', 'inf_load', 'nan_line_x',
          'max_iter1', 'slack_off', 'negative_x'] + [f'scale{k}' for k in (8, 12, 14, 15, 16, 16.5, 17, 17.5, 18, 20, 24)]


def faulty_spec(fault):
    n = 4 if fault == 'island_noslack' else 3
    edges = [(0, 1), (0, 2), (1, 2)] if n == 3 else [(0, 1), (2, 3)]
    spec = make_spec(n, edges, {}, {1: 'pv+pq'} if n == 3 else {})
    solvable = True
    if fault == 'overload5':
        for d in spec['PQ']:
            d['p0'] *= 25
            d['q0'] *= 25
        solvable = None            # decided by the power balance of whatever is reported
    elif fault == 'overload20':
        for d in spec['PQ']:
            d['p0'] *= 100
            d['q0'] *= 100
        solvable = None
    elif fault == 'island_noslack':
        solvable = False
    elif fault == 'zero_impedance':
        spec['Line'][0]['r'] = 0.0
        spec['Line'][0]['x'] = 0.0
        solvable = None            # regularised by the model: either verdict is acceptable if truthful
    elif fault == 'tap0':
        spec['Line'][1]['tap'] = 0.0
        solvable = False
    elif fault == 'nan_load':
        spec['PQ'][0]['q0'] = float('nan')
        solvable = None            # NaN input falls back to the default value by documented behaviour
    elif fault == 'inf_load':
        spec['PQ'][0]['p0'] = float('inf')
        solvable = False
    elif fault == 'nan_line_x':
        spec['Line'][1]['x'] = float('nan')
        solvable = None
    elif fault == 'slack_off':
        spec['Slack'][0]['u'] = 0
        solvable = False
    elif fault == 'negative_x':
        spec['Line'][0]['x'] = -0.3
        solvable = None
    elif fault.startswith('scale'):
        k = float(fault[5:])
        for d in spec['PQ']:
            d['p0'] *= k
            d['q0'] *= k
        solvable = None            # the ladder crosses the loadability limit: the verdict must be truthful on both sides
    return spec, solvable


class PFlowFaults(Part):
    name = 'pflow'
    chunk = 1
    timeout = 300.0
    nproc = 8

    def describe(self, tier):
        return f'faults {FAULTS} x method (NR, dishonest, NK) x routine sequence (pflow | +tds | +eig | +tds+eig) x entry (api, cli)'

    def cases(self, tier):
        out = []
        for f in FAULTS:
            for method in ('NR', 'dishonest', 'NK'):
                for seq in (['pflow'], ['pflow', 'tds'], ['pflow', 'eig'], ['pflow', 'tds', 'eig']):
                    out.append(dict(fault=f, method=method, seq=seq, entry='api'))
            out.append(dict(fault=f, method='NR', seq=['pflow', 'tds'], entry='cli'))
        return out

    def init_worker(self):
        self.tmp = tempfile.mkdtemp(prefix='c17-')

    def execute(self, case):
        import andes
        out = Outcome()
        seen = set()

        def bad(sig, msg):
            if sig not in seen:
                seen.add(sig)
                out.bad(sig, msg)
        spec, solvable = faulty_spec(case['fault'])
        tag = f'{case["fault"]}'
        log = []
        try:
            opts = [f'PFlow.method={case["method"]}']
            if case['fault'] == 'max_iter1':
                opts.append('PFlow.max_iter=1')
            ss = andes.System(no_output=True, default_config=True, config_option=opts)
            for m in ('Bus', 'Line', 'Slack', 'PV', 'PQ', 'Shunt'):
                for d in spec[m]:
                    ss.add(m, dict(d))
            ss.add('GENCLS', dict(idx='M1', bus=1, gen='S1', Vn=spec['Bus'][0]['Vn'], M=6.0))
            if case['entry'] == 'cli':
                ss.setup()
                path = os.path.join(self.tmp, f'f-{os.getpid()}.json')
                andes.io.json.write(ss, path)
                code = andes.run(path, routine='tds', cli=True, no_output=True, default_config=True, tf=0.2,
                                 config_option=opts + ['TDS.no_tqdm=1'], verbose=50)
                os.remove(path)
                log.append(f'cli exit {code}')
                if solvable is False and code == 0:
                    bad(f'cli_exit_zero_on_failure:{tag}', f'{tag}: CLI entry returned exit code 0')
                out.obs = dict(log=log)
                return out
            if not ss.setup():
                log.append('setup False')
                if ss.exit_code == 0:
                    bad(f'failed_setup_exit_zero:{tag}', 'setup returned False with exit code 0')
                out.obs = dict(log=log)
                return out
            systems.quiet_tds(ss)
            if case['fault'] == 'max_iter1':
                solvable = False if case['method'] != 'NK' else None
        except Exception as e:
            log.append(f'setup raised {type(e).__name__}')
            out.obs = dict(log=log)       # rejecting the data while loading is a reported failure
            return out
        try:
            ok = ss.PFlow.run()
            log.append(f'pflow {ok} exit {ss.exit_code}')
        except Exception as e:
            log.append(f'raised {type(e).__name__}')
            bad(f'routine_raises:pflow:{type(e).__name__}:{tag}', f'{tag} ({case["method"]}): PFlow.run raised {type(e).__name__}: {e} '
                                                                   f'instead of returning a flag')
            out.obs = dict(log=log)
            return out
        y = np.array(ss.dae.y)
        finite = bool(np.all(np.isfinite(y)))
        if ok:
            # the routine's own test, recomputed
            ss.PFlow.fg_update()
            g = np.array(ss.dae.g)
            resid = float(np.nanmax(np.abs(g))) if len(g) and not np.all(np.isnan(g)) else float('nan')
            if not finite or np.isnan(g).any():
                bad(f'success_with_nan:{tag}', f'{tag} ({case["method"]}): PFlow.run returned True with non-finite voltages / residuals')
            elif resid > 100 * ss.PFlow.config.tol and case['method'] != 'NK':
                bad(f'success_without_residual_test:{tag}', f'{tag} ({case["method"]}): returned True but max |g| = {resid:.3e}')
            if finite and case['fault'] not in ('nan_load', 'nan_line_x', 'zero_impedance'):
                # the reported solution in the independent network model: power balance at every load bus
                V = {b: ss.Bus.v.v[k] * np.exp(1j * ss.Bus.a.v[k]) for k, b in enumerate(ss.Bus.idx.v)}
                # documented load model: outside [vmin, vmax] the load is the impedance that draws p0, q0 at the band edge
                rspec = dict(spec)
                rspec['PQ'] = []
                for d in spec['PQ']:
                    d = dict(d)
                    vm = abs(V[d['bus']])
                    edge = d['vmin'] if vm < d['vmin'] else d['vmax'] if vm > d['vmax'] else None
                    if edge:
                        d['p0'], d['q0'] = d['p0'] * (vm / edge) ** 2, d['q0'] * (vm / edge) ** 2
                    rspec['PQ'].append(d)
                net = to_net(rspec)
                gen = {d['bus']: d['p0'] + 0j for d in spec['PV'] if d.get('u', 1)}
                try:
                    mis, allow = net.mismatch(V, gen)
                    slack_b = {d['bus'] for d in spec['Slack']}
                    pv_b = {d['bus'] for d in spec['PV']}
                    worst = 0.0
                    for b, m in mis.items():
                        if b in slack_b:
                            continue
                        e = abs(m.real) if b in pv_b else abs(m)
                        worst = max(worst, e - allow[b]) if np.isfinite(e) else float('inf')
                except Exception:
                    worst = float('inf')
                log.append(f'ref mismatch {worst:.1e}' if worst > 1e-4 else 'ref ok')
                if worst > 1e-4:
                    bad(f'success_but_reference_mismatch:{tag}', f'{tag} ({case["method"]}): returned True; power balance of the '
                                                                 f'reported voltages in the reference model is off by {worst:.3e} pu')
                if solvable is False:
                    bad(f'success_on_unsolvable_case:{tag}', f'{tag} ({case["method"]}): returned True on an ill-posed case')
            if ss.exit_code != 0:
                bad(f'exit_nonzero_on_success:{tag}', f'exit code {ss.exit_code} with a True flag')
        else:
            if ss.exit_code == 0:
                bad(f'exit_zero_on_failure:{tag}', f'{tag}: PFlow.run returned False but exit code is 0')
            if solvable is True:
                bad(f'failure_on_solvable_case:{tag}', f'{tag} ({case["method"]}): returned False on a well-posed case')
            for r in case['seq'][1:]:
                try:
                    routine = ss.TDS if r == 'tds' else ss.EIG
                    if r == 'tds':
                        ss.TDS.config.tf = 0.2
                    ret = routine.run() if r == 'eig' else routine.run(no_summary=True)
                    log.append(f'{r} {ret}')
                    if ret:
                        bad(f'dependent_routine_runs_on_failed_pflow:{r}', f'{tag}: {r.upper()}.run returned {ret} after a failed power flow')
                except Exception as e:
                    log.append(f'{r} raised {type(e).__name__}')
                    bad(f'routine_raises:{r}:{type(e).__name__}', f'{tag}: {r.upper()}.run after a failed power flow raised '
                                                                   f'{type(e).__name__}: {e}')
        if ok and not seen:
            for r in case['seq'][1:]:
                try:
                    if r == 'tds':
                        ss.TDS.config.tf = 0.2
                        ret = ss.TDS.run(no_summary=True)
                        log.append(f'tds {ret} init {ss.TDS.test_ok} exit {ss.exit_code}')
                        if ret and ss.TDS.test_ok is False:
                            bad(f'tds_success_after_failed_init:{tag}', f'{tag}: TDS.run returned True although initialisation failed')
                        if ret and not np.all(np.isfinite(ss.dae.x)):
                            bad(f'tds_success_with_nan:{tag}', 'TDS.run returned True with non-finite states')
                        if not ret and ss.exit_code == 0:
                            bad(f'exit_zero_on_failure:tds:{tag}', 'TDS.run returned False with exit code 0')
                    else:
                        ret = ss.EIG.run()
                        log.append(f'eig {ret}')
                        if ret and not np.all(np.isfinite(np.asarray(ss.EIG.mu))):
                            bad(f'eig_success_with_nan:{tag}', 'EIG.run returned True with non-finite eigenvalues')
                except Exception as e:
                    log.append(f'{r} raised {type(e).__name__}')
                    bad(f'routine_raises:{r}:{type(e).__name__}:{tag}', f'{tag}: {r.upper()}.run raised {type(e).__name__}: {e}')
        out.obs = dict(log=log)
        out.transitions = len(case['seq'])
        out.nontrivial = case['fault'] != 'none'
        return out


# ------------------------------------------------------------------ dynamic faults

TDS_FAULTS = ['none', 'init_limit_violated', 'long_fault', 'gen_trip', 'tiny_Sn', 'negative_M', 'zero_M', 'fix_step_reject', 'line_all_trip']


class TDSFaults(Part):
    name = 'tds'
    chunk = 1
    timeout = 600.0
    nproc = 8
    K = 10

    def describe(self, tier):
        return (f'kundur_full: dynamic faults {TDS_FAULTS}; a NaN answer of the linear solver injected at each of the first {self.K} '
                f'solves (one injection), for trapezoid and backeuler; followed by EIG on the resulting state; failing initialisations also requested through PFlow.init_tds = 1')

    def cases(self, tier):
        out = [dict(fault=f, nan_at=None, method='trapezoid') for f in TDS_FAULTS]
        # the initialisation requested through the power-flow routine (PFlow.init_tds = 1): a failed initialisation must
        # show in the exit code whichever routine asked for it
        out += [dict(fault=f, nan_at=None, method='trapezoid', init_tds=1) for f in ('init_limit_violated', 'tiny_Sn', 'none')]
        for k in range(self.K):
            for method in ('trapezoid', 'backeuler'):
                out.append(dict(fault='none', nan_at=k, method=method))
        return out

    def execute(self, case):
        out = Outcome()
        seen = set()

        def bad(sig, msg):
            if sig not in seen:
                seen.add(sig)
                out.bad(sig, msg)
        f = case['fault']
        log = []
        try:
            ss = systems.load_case('kundur/kundur_full.xlsx', setup=False)
            ss.Toggle.u.v[:] = [0] * ss.Toggle.n
            if f == 'long_fault':
                ss.add('Fault', dict(idx='FX', bus=ss.Bus.idx.v[6], tf=0.1, tc=1.6, xf=1e-4))
            elif f == 'gen_trip':
                ss.add('Toggle', dict(idx='TX', model='GENROU', dev=ss.GENROU.idx.v[0], t=0.1))
            elif f == 'init_limit_violated':
                ss.TGOV1.VMAX.v[0] = 0.1
            elif f == 'tiny_Sn':
                ss.GENROU.Sn.v[0] = 1.0
            elif f == 'negative_M':
                ss.GENROU.M.v[0] = -5.0
            elif f == 'zero_M':
                ss.GENROU.M.v[0] = 0.0
            elif f == 'line_all_trip':
                for k in range(ss.Line.n):
                    ss.add('Toggle', dict(idx=f'TL{k}', model='Line', dev=ss.Line.idx.v[k], t=0.1))
            ss.setup()
            systems.quiet_tds(ss)
            if case.get('init_tds'):
                ss.PFlow.config.init_tds = 1
            ok = ss.PFlow.run()
            if case.get('init_tds'):
                init_ok = bool(ss.TDS.initialized) and ss.TDS.test_ok is not False
                log.append(f'pflow {ok} init_ok {init_ok} exit {ss.exit_code}')
                if ok and not init_ok and ss.exit_code == 0:
                    bad(f'failed_initialisation_exit_code_zero:init_tds:{f}', f'{f}: PFlow.run with init_tds = 1: the dynamic '
                        f'initialisation failed (test_ok = {ss.TDS.test_ok}) and System.exit_code is 0')
                if ok and init_ok and ss.exit_code != 0:
                    bad(f'successful_initialisation_exit_code_nonzero:init_tds:{f}', f'{f}: exit code {ss.exit_code}')
                out.obs = dict(log=log)
                return out
        except Exception as e:
            log.append(f'setup raised {type(e).__name__}')
            out.obs = dict(log=log)
            return out
        try:
            tds = ss.TDS
            tds.config.tf = 2.0
            tds.config.method = case['method']
            tds.set_method(case['method'])
            if f == 'fix_step_reject':
                tds.config.shrinkt = 0
                orig = tds.itm_step
                n = dict(k=0)

                def wrapped():
                    n['k'] += 1
                    if n['k'] == 5:
                        keep = tds.config.tol
                        tds.config.tol = -1
                        try:
                            return orig()
                        finally:
                            tds.config.tol = keep
                    return orig()
                tds.itm_step = wrapped
            if case['nan_at'] is not None:
                calls = dict(k=0)
                w = tds.solver
                orig_solve = w.solve

                def solve(A, b):
                    k = calls['k']
                    calls['k'] += 1
                    x = orig_solve(A, b)
                    if k == case['nan_at']:
                        return np.full(np.size(x), np.nan)
                    return x
                w.solve = solve
            ret = tds.run(no_summary=True)
            log.append(f'tds {ret} t {float(ss.dae.t):.4f} exit {ss.exit_code} init {tds.test_ok}')
            if tds.test_ok is False:
                code0 = ss.exit_code
                e = ss.EIG.run()
                log.append(f'eig {e}')
                if e:
                    bad(f'eig_runs_after_failed_init:{f}', f'{f}: EIG.run returned True on the state left by a failed initialisation')
                ss.exit_code = code0
        except Exception as e:
            log.append(f'raised {type(e).__name__}')
            bad(f'routine_raises:{type(e).__name__}:{f}', f'{f}: the routine raised {type(e).__name__}: {e} instead of returning a flag')
            out.obs = dict(log=log)
            return out
        x, y = np.array(ss.dae.x), np.array(ss.dae.y)
        finite = bool(np.all(np.isfinite(x)) and np.all(np.isfinite(y)))
        tag = f if case['nan_at'] is None else 'solver_nan'
        if ret:
            if not finite:
                bad(f'tds_success_with_nan:{tag}', f'{tag}: TDS.run returned True with non-finite state')
            if tds.test_ok is False:
                bad(f'tds_success_after_failed_init:{tag}', f'{tag}: TDS.run returned True although initialisation reported failure')
            if float(ss.dae.t) != tds.config.tf:
                bad(f'tds_success_not_at_tf:{tag}', f'{tag}: returned True at t = {float(ss.dae.t)}')
            if case['nan_at'] is not None:
                bad('solver_nan_ignored', f'a NaN solver answer at solve #{case["nan_at"]} ({case["method"]}) and the run reported success')
            if ss.exit_code != 0 and tds.test_ok is not False:
                bad(f'exit_nonzero_on_success:{tag}', f'{tag}: exit code {ss.exit_code} with a True flag')
        else:
            if ss.exit_code == 0:
                bad(f'exit_zero_on_failure:{tag}', f'{tag}: TDS.run returned False with exit code 0')
            if not finite:
                bad(f'failed_run_leaves_nan_state:{tag}', f'{tag}: after the failed run the state holds NaN (no last good state kept)')
            ts = np.array(ss.dae.ts.x) if len(ss.dae.ts.t) else np.zeros((0, 0))
            if ts.size and not np.all(np.isfinite(ts)):
                bad(f'nan_stored_as_result:{tag}', f'{tag}: stored time series contains NaN')
        out.obs = dict(log=log, finite=finite)
        out.transitions = 2
        out.nontrivial = tag != 'none'
        return out


# ------------------------------------------------------------------ loss of synchronism

class Slip(Part):
    """Two classical machines that keep converging while they slip poles: only the stability criterion can stop the run."""
    name = 'slip'
    chunk = 2
    timeout = 600.0
    nproc = 8
    DUR = (0.05, 0.2, 0.4, 0.6, 0.9)

    def describe(self, tier):
        return (f'two GENCLS machines on two buses: light machine in (G1, G2) x fault bus in (1, 2) x fault duration in {self.DUR} x '
                f'machine add order (G1 first, G2 first) x (trapezoid, backeuler) x criteria in (1, 0); tf = 4 s')

    def cases(self, tier):
        out = []
        for light, fb, dur, order, method in itertools.product((1, 2), (1, 2), self.DUR, ('12', '21'), ('trapezoid', 'backeuler')):
            out.append(dict(light=light, fbus=fb, dur=dur, order=order, method=method, criteria=1))
        for light, fb in itertools.product((1, 2), (1, 2)):
            out.append(dict(light=light, fbus=fb, dur=0.9, order='12', method='trapezoid', criteria=0))
        return out

    def execute(self, case):
        import andes
        out = Outcome()
        ss = andes.System(no_output=True, default_config=True)
        for b in (1, 2):
            ss.add('Bus', dict(idx=b, name=f'B{b}', Vn=110.0))
        for k in range(2):
            ss.add('Line', dict(idx=f'L{k}', bus1=1, bus2=2, Vn1=110.0, Vn2=110.0, r=0.0, x=0.4 + 0.1 * k))
        ss.add('Slack', dict(idx='S1', bus=1, Vn=110.0, Sn=100.0, v0=1.0, a0=0.0))
        ss.add('PV', dict(idx='G2s', bus=2, Vn=110.0, Sn=100.0, v0=1.0, p0=0.9 if case['light'] == 2 else 0.2))
        ss.add('PQ', dict(idx='D1', bus=1, Vn=110.0, p0=0.9 if case['light'] == 2 else 0.0 + 0.05, q0=0.05))
        ss.add('PQ', dict(idx='D2', bus=2, Vn=110.0, p0=1.0 if case['light'] == 1 else 0.1, q0=0.05))
        M = {1: 3.0 if case['light'] == 1 else 60.0, 2: 3.0 if case['light'] == 2 else 60.0}
        for g in case['order']:
            g = int(g)
            ss.add('GENCLS', dict(idx=f'M{g}', bus=g, gen='S1' if g == 1 else 'G2s', Vn=110.0, Sn=100.0, M=M[g], D=0.0, xd1=0.3))
        ss.add('Fault', dict(idx='F', bus=case['fbus'], tf=0.5, tc=0.5 + case['dur'], xf=1e-3, rf=0.0))
        ss.setup()
        systems.quiet_tds(ss)
        if not ss.PFlow.run():
            out.obs = dict(skip='power flow')
            return out
        tds = ss.TDS
        tds.config.tf = 4.0
        tds.config.criteria = case['criteria']
        tds.config.method = case['method']
        tds.set_method(case['method'])
        try:
            ret = tds.run(no_summary=True)
        except Exception as e:
            out.bad(f'routine_raises:{type(e).__name__}', f'TDS.run raised {type(e).__name__}: {e}')
            return out
        t = np.array(ss.dae.ts.t)
        d = np.array(ss.dae.ts.x)[:, ss.GENCLS.delta.a]
        spread = d.max(axis=1) - d.min(axis=1)          # the criterion, recomputed: largest rotor-angle difference
        limit = np.deg2rad(tds.config.ddelta_limit)
        kb = np.where(spread >= limit)[0]
        lost = len(kb) > 0
        out.obs = dict(ret=bool(ret), lost=lost, t_end=round(float(t[-1]), 4), t_lost=round(float(t[kb[0]]), 4) if lost else None,
                       exit=ss.exit_code)
        out.nontrivial = lost
        out.transitions = len(t)
        if case['criteria'] == 1 and lost:
            if ret:
                out.bad('success_despite_loss_of_synchronism', f'rotor angles {np.rad2deg(spread.max()):.0f} deg apart (limit '
                        f'{tds.config.ddelta_limit:g}) from t = {t[kb[0]]:.3f} s; TDS.run returned True at t = {t[-1]:.3f} s')
            elif ss.exit_code == 0:
                out.bad('exit_zero_on_failure:criterion', 'stability criterion tripped, exit code 0')
            if t[-1] > t[kb[0]] + 1e-9:
                out.bad('run_continues_past_tripped_criterion', f'criterion violated at the stored instant t = {t[kb[0]]:.4f} s, the run '
                                                                f'went on to t = {t[-1]:.4f} s')
        if ret and (float(ss.dae.t) != tds.config.tf or not np.all(np.isfinite(d))):
            out.bad('success_not_at_tf_or_nan', f'returned True at t = {float(ss.dae.t)}')
        if not ret and ss.exit_code == 0:
            out.bad('exit_zero_on_failure:slip', 'TDS.run returned False with exit code 0')
        return out


# ------------------------------------------------------------------ histories of solvable / unsolvable states on one System

class Rerun(Part):
    """The same System alternates between a solvable and an unsolvable state: every verdict must describe the CURRENT run."""
    name = 'rerun'
    chunk = 2
    timeout = 600.0
    nproc = 8
    OPS = ['good', 'overload', 'tap0', 'nan_inf']

    def describe(self, tier):
        d = 3 if tier == 'quick' else 4
        return (f'one 3-bus System with a classical machine: all sequences of depth <= {d} over states {self.OPS} (parameters '
                f'altered in place), PFlow.run after each, then TDS.run and EIG.run on the last: a failed run after a successful one '
                f'must be reported as failed and dependants must refuse')

    def cases(self, tier):
        d = 3 if tier == 'quick' else 4
        out = []
        for r in range(2, d + 1):
            out += [list(q) for q in itertools.product(range(len(self.OPS)), repeat=r)]
        return out

    def execute(self, case):
        import andes
        out = Outcome()
        seen = set()

        def bad(sig, msg):
            if sig not in seen:
                seen.add(sig)
                out.bad(sig, msg)
        spec, _ = faulty_spec('none')
        ss = andes.System(no_output=True, default_config=True)
        for m in ('Bus', 'Line', 'Slack', 'PV', 'PQ', 'Shunt'):
            for d in spec[m]:
                ss.add(m, dict(d))
        ss.add('GENCLS', dict(idx='M1', bus=1, gen='S1', Vn=spec['Bus'][0]['Vn'], M=6.0))
        ss.setup()
        systems.quiet_tds(ss)
        p_ok = [float(v) for v in ss.PQ.p0.v]
        tap_ok = float(ss.Line.tap.v[1])
        log = []
        last = None
        for step, k in enumerate(case):
            state = self.OPS[k]
            # every state is written completely, so the System is exactly in that state whatever came before
            ss.PQ.p0.v[:] = [p * (100.0 if state == 'overload' else 1.0) for p in p_ok]
            ss.Line.tap.v[1] = 0.0 if state == 'tap0' else tap_ok
            ss.PQ.q0.v[0] = float('inf') if state == 'nan_inf' else spec['PQ'][0]['q0']
            hist = [self.OPS[j] for j in case[:step + 1]]
            try:
                ok = ss.PFlow.run()
            except Exception as e:
                bad(f'routine_raises:pflow:{type(e).__name__}', f'after {hist}: PFlow.run raised {type(e).__name__}: {e}')
                break
            log.append([state, bool(ok), int(ss.exit_code)])
            finite = bool(np.all(np.isfinite(ss.dae.y)))
            kind = 'after_success' if any(self.OPS[j] == 'good' for j in case[:step]) else 'first'
            if state == 'good':
                pass        # a (conservative) failure on good data after a NaN state is not against the property: observed only
            else:
                if ok:
                    bad(f'failed_run_reported_as_success:{kind}', f'after {hist}: PFlow.run returned True in state {state} '
                                                                   f'(finite = {finite}, exit code {ss.exit_code})')
                elif ss.exit_code == 0:
                    bad(f'exit_zero_on_failure:{kind}', f'after {hist}: returned False with exit code 0')
            if ok and ss.exit_code != 0:
                bad('exit_nonzero_on_success:rerun', f'after {hist}: exit code {ss.exit_code} with a True flag')
            last = (state, ok)
        if last is not None:
            state, ok = last
            for r in ('tds', 'eig'):
                try:
                    if r == 'tds':
                        ss.TDS.config.tf = 0.1
                        ret = ss.TDS.run(no_summary=True)
                    else:
                        ret = ss.EIG.run()
                except Exception as e:
                    bad(f'routine_raises:{r}:{type(e).__name__}:rerun', f'after {[self.OPS[j] for j in case]}: {type(e).__name__}: {e}')
                    continue
                log.append([r, bool(ret)])
                if state != 'good' and ret:
                    bad(f'dependent_routine_runs_on_failed_pflow:{r}:rerun', f'after {[self.OPS[j] for j in case]}: {r.upper()}.run '
                                                                             f'returned True')
        out.obs = dict(log=log)
        out.transitions = len(case) + 2
        out.nontrivial = any(self.OPS[k] != 'good' for k in case)
        return out


# ------------------------------------------------------------------ corrupt files

class Files(Part):
    name = 'files'
    chunk = 8
    timeout = 300.0
    nproc = 8

    def describe(self, tier):
        return ('a 3-bus json case: every prefix cut at a token boundary ("," ":" "{" "}" "[" "]"), the empty file, the full file; '
                'xlsx truncated at 8 lengths; wrong extension; missing file; an intact and a missing file on one command line; through andes.load + routines and the CLI entry point')

    def source(self):
        import andes
        spec, _ = faulty_spec('none')
        ss = andes.System(no_output=True, default_config=True)
        for m in ('Bus', 'Line', 'Slack', 'PV', 'PQ', 'Shunt'):
            for d in spec[m]:
                ss.add(m, dict(d))
        ss.setup()
        import io
        buf = io.StringIO()
        andes.io.json.write(ss, buf)
        return buf.getvalue(), ss

    def cases(self, tier):
        text, ss = self.source()
        cuts = [i + 1 for i, ch in enumerate(text) if ch in ',:{}[]']
        if tier == 'quick':
            cuts = cuts[::3]
        out = [dict(kind='json_prefix', cut=c) for c in cuts if c < len(text)]
        out += [dict(kind='json_prefix', cut=0), dict(kind='json_full', cut=len(text))]
        out += [dict(kind='xlsx_trunc', frac=f) for f in (0.0, 0.1, 0.3, 0.5, 0.7, 0.9, 0.99, 1.0)]
        out += [dict(kind='wrong_ext'), dict(kind='missing')]
        # two inputs on one command line, one of them missing (the other intact): a missing input must show in the exit code
        out += [dict(kind='good+missing', order=0), dict(kind='good+missing', order=1)]
        return out

    def init_worker(self):
        import andes
        self.tmp = tempfile.mkdtemp(prefix='c17f-')
        self.text, ss = self.source()
        self.xlsx = os.path.join(self.tmp, 'src.xlsx')
        andes.io.xlsx.write(ss, self.xlsx, overwrite=True)
        self.xbytes = open(self.xlsx, 'rb').read()

    def execute(self, case):
        import andes
        out = Outcome()
        kind = case['kind']
        complete = (kind == 'json_full') or (kind == 'xlsx_trunc' and case['frac'] == 1.0)
        path = os.path.join(self.tmp, f'c-{os.getpid()}' + ('.xlsx' if kind == 'xlsx_trunc' else '.json'))
        if kind in ('json_prefix', 'json_full'):
            open(path, 'w').write(self.text[:case['cut']])
        elif kind == 'xlsx_trunc':
            open(path, 'wb').write(self.xbytes[:int(len(self.xbytes) * case['frac'])])
        elif kind == 'wrong_ext':
            path = os.path.join(self.tmp, f'c-{os.getpid()}.raw')
            open(path, 'w').write(self.text)
        else:
            path = os.path.join(self.tmp, 'does-not-exist.json')
        log = []
        if kind == 'good+missing':
            good = os.path.join(self.tmp, f'g-{os.getpid()}.json')
            open(good, 'w').write(self.text)
            names = [good, path] if case['order'] == 0 else [path, good]
            try:
                code = andes.run(names, cli=True, no_output=True, default_config=True, verbose=50)
                log.append(f'cli exit {code}')
                if code == 0:
                    out.bad('cli_exit_zero_with_a_missing_input', f'andes.run([intact, missing][order {case["order"]}], cli=True) '
                            f'returned exit code 0')
            except (Exception, SystemExit) as e:
                log.append(f'cli raised {type(e).__name__}')
            os.remove(good)
            out.obs = dict(log=log)
            return out
        for entry in ('api', 'cli'):
            try:
                if entry == 'api':
                    ss = andes.load(path, no_output=True, default_config=True)
                    if ss is None:
                        log.append('load None')
                        continue
                    ok = ss.PFlow.run()
                    log.append(f'load ok pflow {ok} exit {ss.exit_code}')
                    if not complete and ok and ss.exit_code == 0:
                        out.bad(f'corrupt_input_reported_as_success:{kind}', f'{kind} {case}: loaded and solved with exit code 0')
                    if complete and not ok:
                        out.bad(f'intact_input_fails:{kind}', f'{kind}: the complete file does not solve')
                else:
                    code = andes.run(path, cli=True, no_output=True, default_config=True, verbose=50)
                    log.append(f'cli exit {code}')
                    if not complete and code == 0:
                        out.bad(f'cli_exit_zero_on_corrupt_input:{kind}', f'{kind} {case}: CLI entry returned exit code 0')
                    if complete and code != 0:
                        out.bad(f'cli_exit_nonzero_on_intact_input:{kind}', f'{kind}: exit code {code}')
            except (Exception, SystemExit) as e:
                log.append(f'{entry} raised {type(e).__name__}')
                if complete:
                    out.bad(f'intact_input_raises:{kind}:{entry}', f'{type(e).__name__}: {e}')
        for p in (path,):
            if os.path.exists(p) and kind != 'missing':
                os.remove(p)
        out.obs = dict(log=log)
        out.nontrivial = not complete
        return out


def parts(tier):
    return [PFlowFaults(), TDSFaults(), Slip(), Rerun(), Files()]


def run(run, only=None):
    for p in parts(run.tier):
        if only and p.name != only:
            continue
        run.run_part(p, audit=2)
    run.assumptions += ['while loading data an exception or a None return counts as a reported failure; an exception escaping a routine run() is a violation', 'inputs for which the model documents a '
                        'regularisation or a default (zero impedance, NaN parameter) may succeed if the result is truthful',
                        'Newton-Krylov residuals are judged at its own tolerance']
    rule = ('fault catalogue x Newton variant x routine sequence x entry point; one NaN injection at each of the first K linear '
            'solves; every token-boundary prefix of a case file; non-trivial = a fault was injected')
    return run.finish(rule)
