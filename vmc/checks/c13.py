"""
C13 - case files round-trip; one case in different formats is one system.

stock    : every stand-alone stock case (xlsx / json / raw(+dyr) / m) loaded, written to json and to xlsx, read back:
           same models, same device order, as_dict(vin=True) equal value by value with the type class preserved; same
           power-flow solution and same dynamic-initialisation verdict.
generated: the C01 network family (all single branch features / bus device sets on the 3-bus triangle) plus extra
           parameter kinds (string bus indices, offline devices, two loads on a bus, list-valued ShuntSw data, missing
           optional fields) through json and xlsx round trips.
matpower : the same networks written as MATPOWER text by an independent generator (incl. a pure phase shifter with
           ratio 0) -> andes reads it -> element data must equal the generator's data by the textbook conversion;
           system2mpc -> mpc2system must give an equivalent system (per-bus online load and shunt totals, generator
           set-points and statuses, branch data) with the same power flow.
psse     : the same networks written as PSS/E RAW v33 text by an independent generator (loads with constant current /
           admittance parts, offline loads, fixed shunts, branch end shunts GI/BI/GJ/BJ, two-winding transformers with
           CW in {1, 2}, CZ in {1, 2}, phase shift, winding-2 tap) -> element data compared by the textbook conversion.
"""

import glob
import itertools
import json
import math
import os
import tempfile

import numpy as np

from vmc.core import Outcome, Part
from vmc.checks.c01 import make_spec, BRANCH_FEATURES, BUS_DEVICES, to_net

SKIP_STOCK = ('pert.py', 'README', 'plbvf.xlsx', 'pqts.xlsx', 'ieee14_dyn_only.xlsx', '.dyr', 'N44_BC.raw', 'kundur_coi_partial',
              'ieee14_timeseries', 'ieee14_plbvfu1', 'pandapower', 'matpower/case', 'GBnetwork', 'ei/', 'wecc_full.xlsx', 'nordic44')


def stock_cases():
    import andes
    root = os.path.join(os.path.dirname(andes.__file__), 'cases')
    out = []
    for p in sorted(glob.glob(os.path.join(root, '**', '*'), recursive=True)):
        rel = os.path.relpath(p, root)
        if not os.path.isfile(p) or not rel.endswith(('.xlsx', '.json', '.raw', '.m')):
            continue
        if any(s in rel for s in SKIP_STOCK):
            continue
        out.append(rel)
    return out


def typeclass(x):
    if x is None:
        return 'none'
    if isinstance(x, (bool, np.bool_)):
        return 'num'
    if isinstance(x, (int, float, np.integer, np.floating)):
        return 'nan' if (isinstance(x, (float, np.floating)) and math.isnan(x)) else 'num'
    if isinstance(x, str):
        return 'str'
    if isinstance(x, (list, tuple, np.ndarray)):
        return 'list'
    return type(x).__name__


def same_value(a, b):
    ta, tb = typeclass(a), typeclass(b)
    if {ta, tb} <= {'none', 'nan'}:
        return True
    if ta != tb:
        return False
    if ta == 'num':
        return abs(float(a) - float(b)) <= 1e-12 * max(1.0, abs(float(a)))
    if ta == 'list':
        a, b = list(np.ravel(a)), list(np.ravel(b))
        return len(a) == len(b) and all(same_value(x, y) for x, y in zip(a, b))
    return a == b


def compare_systems(s1, s2, bad, where):
    d1, d2 = s1.as_dict(vin=True), s2.as_dict(vin=True)
    if list(d1.keys()) != list(d2.keys()):
        bad(f'models_differ:{where}', f'{where}: populated models {sorted(set(d1) ^ set(d2))} differ')
    for m in d1:
        if m not in d2 or m == 'Summary':
            continue
        a, b = d1[m], d2[m]
        if list(a.get('idx', [])) != list(b.get('idx', [])) and not all(same_value(x, y) for x, y in zip(a.get('idx', []), b.get('idx', []))):
            bad(f'device_order_or_idx_differs:{where}:{m}', f'{where}: {m}.idx {list(a.get("idx"))[:6]} vs {list(b.get("idx"))[:6]}')
            continue
        for p in a:
            if p not in b:
                bad(f'param_missing:{where}', f'{where}: {m}.{p} missing after round trip')
                continue
            va, vb = list(a[p]), list(b[p])
            if len(va) != len(vb):
                bad(f'device_count_differs:{where}:{m}', f'{where}: {m}.{p} has {len(va)} vs {len(vb)} values')
                continue
            for i, (x, y) in enumerate(zip(va, vb)):
                if not same_value(x, y):
                    kind = f'{typeclass(x)}->{typeclass(y)}'
                    bad(f'value_changed:{where}:{kind}', f'{where}: {m}.{p}[{i}] {x!r} ({typeclass(x)}) -> {y!r} ({typeclass(y)})')
                    break


def results(ss, dynamic=True):
    from vmc import systems
    systems.quiet_tds(ss)
    try:
        ok = bool(ss.PFlow.run())
    except Exception as e:
        return dict(pf=f'raised {type(e).__name__}')
    out = dict(pf=ok)
    if ok:
        out['v'] = np.array(ss.Bus.v.v)
        out['a'] = np.array(ss.Bus.a.v)
        if dynamic and len(ss.exist.tds) > 0 and ss.dae.n >= 0:
            try:
                ss.TDS.init()
                out['init'] = ss.TDS.test_ok
                out['x'] = np.array(ss.dae.x)
            except Exception as e:
                out['init'] = f'raised {type(e).__name__}'
    return out


def compare_results(r1, r2, bad, where):
    if r1.get('pf') != r2.get('pf'):
        bad(f'pflow_verdict_differs:{where}', f'{where}: power flow {r1.get("pf")} vs {r2.get("pf")}')
        return
    if r1.get('pf') is True:
        if r1['v'].shape != r2['v'].shape or np.max(np.abs(r1['v'] - r2['v'])) > 1e-9 or np.max(np.abs(r1['a'] - r2['a'])) > 1e-9:
            bad(f'pflow_solution_differs:{where}', f'{where}: power-flow solutions differ')
        if r1.get('init') != r2.get('init'):
            bad(f'init_verdict_differs:{where}', f'{where}: TDS.init {r1.get("init")} vs {r2.get("init")}')
        elif 'x' in r1 and 'x' in r2 and r1['x'].shape == r2['x'].shape and len(r1['x']) and \
                np.nanmax(np.abs(r1['x'] - r2['x'])) > 1e-8:
            bad(f'init_values_differ:{where}', f'{where}: initial states differ by {np.nanmax(np.abs(r1["x"] - r2["x"])):.2e}')


class Stock(Part):
    name = 'stock'
    chunk = 1
    timeout = 900.0
    nproc = 8

    def describe(self, tier):
        return 'every stand-alone stock case x {json, xlsx} write -> read; as_dict(vin) value/type equality + power flow + init'

    def cases(self, tier):
        return [[c, f] for c in stock_cases() for f in ('json', 'xlsx')]

    def init_worker(self):
        self.tmp = tempfile.mkdtemp(prefix='c13-')

    def execute(self, case):
        import andes
        from vmc import systems
        rel, fmt = case
        out = Outcome()
        seen = set()

        def bad(sig, msg):
            if sig not in seen:
                seen.add(sig)
                out.bad(sig, msg)
        kw = {}
        if rel.endswith('.raw'):
            dyr = os.path.join(os.path.dirname(andes.get_case(rel)), os.path.basename(rel).replace('.raw', '.dyr'))
            full = andes.get_case(rel).replace('.raw', '_full.dyr')
            for cand in (dyr, full):
                if os.path.isfile(cand):
                    kw['addfile'] = cand
                    break
        try:
            s1 = systems.load_case(rel, **kw)
        except Exception as e:
            out.obs = dict(skipped=f'load raised {type(e).__name__}')
            out.nontrivial = False
            return out
        path = os.path.join(self.tmp, f'rt-{os.getpid()}.{fmt}')
        try:
            getattr(andes.io, fmt).write(s1, path, overwrite=True)
            s2 = andes.load(path, no_output=True, default_config=True)
        except Exception as e:
            import traceback
            tb = traceback.extract_tb(e.__traceback__)
            bad(f'roundtrip_raises:{fmt}:{type(e).__name__}@{tb[-1].name if tb else "?"}', f'{rel}: {type(e).__name__}: {e}')
            out.obs = dict(exc=type(e).__name__)
            return out
        finally:
            if os.path.exists(path):
                os.remove(path)
        compare_systems(s1, s2, bad, fmt)
        compare_results(results(s1), results(s2), bad, fmt)
        out.obs = dict(case=rel, fmt=fmt, models=len(s1.as_dict()))
        out.transitions = 2
        return out


# ------------------------------------------------------------------ generated networks

def gen_specs(tier):
    """Triangle networks with every single deviation (+ pairs in thorough) and a few extra parameter kinds."""
    edges = [(0, 1), (0, 2), (1, 2)]
    devs = [('b', e, f) for e in range(3) for f in BRANCH_FEATURES if f != 'plain'] + \
           [('d', k, d) for k in (1, 2) for d in BUS_DEVICES if d != 'pq']
    combos = [[]] + [[d] for d in devs]
    if tier != 'quick':
        combos += [[a, b] for a, b in itertools.combinations(devs, 2) if not (a[0] == b[0] and a[1] == b[1])]
    out = []
    for c in combos:
        out.append(dict(edges=edges, dev=[list(x) for x in c]))
    return out


def spec_of(case):
    bfeat = {e: f for k, e, f in case['dev'] if k == 'b'}
    bdev = {b: d for k, b, d in case['dev'] if k == 'd'}
    return make_spec(3, [tuple(e) for e in case['edges']], bfeat, bdev)


def build_from_spec(spec, extra=None, mva=None):
    import andes
    ss = andes.System(no_output=True, default_config=True)
    if mva:
        ss.config.mva = mva
    for m in ('Bus', 'Line', 'Slack', 'PV', 'PQ', 'Shunt'):
        for d in spec[m]:
            ss.add(m, dict(d))
    if extra:
        extra(ss)
    ss.setup()
    return ss


class Generated(Part):
    name = 'generated'
    chunk = 2
    timeout = 600.0
    nproc = 8

    def __init__(self, tier='quick'):
        self.tier = tier

    def describe(self, tier):
        return ('3-bus triangle: default + every single branch feature / bus device set (+ pairs in thorough) x extra kinds '
                '(none, string bus idx, list-valued ShuntSw, dynamic devices with optional fields left empty) x {json, xlsx}')

    def cases(self, tier):
        out = []
        for c in gen_specs(tier):
            for extra in ('none', 'stridx', 'shuntsw', 'dyn'):
                if extra != 'none' and c['dev'] and tier == 'quick' and len(c['dev']) > 0 and c['dev'][0][0] == 'b' and c['dev'][0][2] not in ('asym', 'base'):
                    continue
                for fmt in ('json', 'xlsx'):
                    out.append(dict(c, extra=extra, fmt=fmt))
        return out

    def init_worker(self):
        self.tmp = tempfile.mkdtemp(prefix='c13g-')

    def execute(self, case):
        import andes
        from vmc.checks.c01 import relabel
        out = Outcome()
        seen = set()

        def bad(sig, msg):
            if sig not in seen:
                seen.add(sig)
                out.bad(sig, msg)
        spec = spec_of(case)
        if case['extra'] == 'stridx':
            spec = relabel(spec)

        def extra(ss):
            if case['extra'] == 'shuntsw':
                ss.add('ShuntSw', dict(idx='SW1', bus=spec['Bus'][1]['idx'], Vn=spec['Bus'][1]['Vn'], gs=[0.0, 0.0],
                                       bs=[0.01, 0.02], ns=[1, 2], vref=1.0, dv=0.5))
            if case['extra'] == 'dyn':
                ss.add('GENCLS', dict(idx='M1', bus=spec['Bus'][0]['idx'], gen='S1', Vn=spec['Bus'][0]['Vn'], M=6.0))
                ss.add('Toggle', dict(idx='T1', model='Line', dev='L0', t=0.5))
                ss.add('BusFreq', dict(idx='BF', bus=spec['Bus'][2]['idx']))
        fmt = case['fmt']
        path = os.path.join(self.tmp, f'g-{os.getpid()}.{fmt}')
        try:
            s1 = build_from_spec(spec, extra)
            getattr(andes.io, fmt).write(s1, path, overwrite=True)
            s2 = andes.load(path, no_output=True, default_config=True)
        except Exception as e:
            import traceback
            tb = traceback.extract_tb(e.__traceback__)
            bad(f'roundtrip_raises:{fmt}:{type(e).__name__}@{tb[-1].name if tb else "?"}', f'{type(e).__name__}: {e}')
            out.obs = dict(exc=type(e).__name__)
            return out
        finally:
            if os.path.exists(path):
                os.remove(path)
        compare_systems(s1, s2, bad, fmt)
        compare_results(results(s1), results(s2), bad, fmt)
        out.obs = dict(fmt=fmt, extra=case['extra'], dev=case['dev'])
        out.transitions = 2
        return out


# ------------------------------------------------------------------ MATPOWER

def spec_to_mpc_text(spec, phase_only=None, base=100.0, gen_status=None, close_inline=False):
    """Independent MATPOWER writer. MATPOWER has no end shunts / own bases: those features are not passed in.
    Per-unit numbers of the spec are taken as given on the case base `base`."""
    kv = {b['idx']: b['Vn'] for b in spec['Bus']}
    lines = ['function mpc = gen', "mpc.version = '2';", f'mpc.baseMVA = {base};', 'mpc.bus = [']
    slack = {d['bus'] for d in spec['Slack']}
    pvb = {d['bus'] for d in spec['PV']}
    ref = dict(bus={}, gen=[], branch=[])
    for b in spec['Bus']:
        pd = sum(d['p0'] for d in spec['PQ'] if d['bus'] == b['idx'] and d.get('u', 1)) * base
        qd = sum(d['q0'] for d in spec['PQ'] if d['bus'] == b['idx'] and d.get('u', 1)) * base
        gs = sum(d['g'] * (100.0 / d.get('Sn', 100.0)) ** -1 * 1.0 for d in spec['Shunt'] if d['bus'] == b['idx']) * 0
        ty = 3 if b['idx'] in slack else (2 if b['idx'] in pvb else 1)
        # shunts: expressed directly in MW / Mvar at 1 pu (MATPOWER convention)
        sh = [d for d in spec['Shunt'] if d['bus'] == b['idx'] and d.get('u', 1)]      # MATPOWER has no shunt status
        gs = sum(d['g_mw'] for d in sh) * base / 100.0 if sh and 'g_mw' in sh[0] else 0.0
        bs = sum(d['b_mvar'] for d in sh) * base / 100.0 if sh and 'b_mvar' in sh[0] else 0.0
        lines.append(f'  {b["idx"]} {ty} {pd:.10g} {qd:.10g} {gs:.10g} {bs:.10g} 1 1.0 0.0 {b["Vn"]} 1 1.6 0.4;')
        ref['bus'][b['idx']] = dict(pd=pd / base, qd=qd / base, gs=gs / base, bs=bs / base, Vn=b['Vn'], type=ty)
    lines += ['];', 'mpc.gen = [']
    for d in spec['Slack'] + spec['PV']:
        pg = d.get('p0', 0.0) * base
        st = int(d.get('u', 1))
        if gen_status is not None and d['bus'] not in slack:
            st = gen_status          # MATPOWER: GEN_STATUS > 0 = machine in service, <= 0 = out of service
        lines.append(f'  {d["bus"]} {pg:.10g} 0 9900 -9900 {d["v0"]} {base} {st} 9999 0 0 0 0 0 0 0 0 0 0 0 0;')
        ref['gen'].append(dict(bus=d['bus'], p0=pg / base, v0=d['v0'], u=1 if st > 0 else 0, slack=d['bus'] in slack))
    lines += ['];', 'mpc.branch = [']
    for k, ln in enumerate(spec['Line']):
        ratio = ln.get('tap', 1.0) if ('tap' in ln or 'phi' in ln) else 0.0
        ang = math.degrees(ln.get('phi', 0.0))
        if phase_only is not None and k == phase_only:
            ratio, ang = 0.0, 3.5            # pure phase shifter: ratio 0 means nominal tap
        st = int(ln.get('u', 1))
        lines.append(f'  {ln["bus1"]} {ln["bus2"]} {ln["r"]:.10g} {ln["x"]:.10g} {ln.get("b", 0.0):.10g} 0 0 0 {ratio:.10g} {ang:.10g} {st} -360 360;')
        ref['branch'].append(dict(bus1=ln['bus1'], bus2=ln['bus2'], r=ln['r'], x=ln['x'], b=ln.get('b', 0.0),
                                  tap=(ratio if ratio != 0 else 1.0), phi=math.radians(ang), u=st))
    lines += ['];']
    text = '\n'.join(lines) + '\n'
    if close_inline:
        # legal MATLAB: the closing bracket on the line of the last row
        text = text.replace(';\n];', ';];')
    return text, ref


class Matpower(Part):
    name = 'matpower'
    chunk = 2
    timeout = 600.0
    nproc = 8

    def __init__(self, tier='quick'):
        self.tier = tier

    MP_FEATURES = ('plain', 'tap', 'phase', 'tap+phase', 'charging', 'off+parallel')

    def describe(self, tier):
        return ('triangle networks restricted to what MATPOWER can express (tap, phase, charging, offline branch; 2 x PQ, PV, '
                'shunt, offline load) incl. a ratio-0 phase shifter: text -> System vs generator data; system2mpc -> mpc2system '
                'equivalence incl. string bus indices, two loads on a bus, offline load; case base 100 and 50 MVA; generator status codes 2 / -1 / 0; '
                'closing bracket on the line of the last row')

    def cases(self, tier):
        out = []
        for c in gen_specs(tier):
            if any(k == 'b' and f not in self.MP_FEATURES for k, e, f in c['dev']):
                continue
            out.append(dict(c, mode='read', phase_only=None))
            out.append(dict(c, mode='export', stridx=False))
            out.append(dict(c, mode='export', stridx=True))
            # a case base other than 100 MVA (per-unit data are on the case base)
            out.append(dict(c, mode='read', phase_only=None, base=50.0))
            out.append(dict(c, mode='export', stridx=False, base=50.0))
        # MATPOWER status codes other than 0 / 1 (GEN_STATUS > 0 means in service, <= 0 out of service), and the closing
        # bracket of a matrix on the line of its last row
        for st in (2, -1, 0):
            out.append(dict(edges=[(0, 1), (0, 2), (1, 2)], dev=[['d', 1, 'pv']], mode='read', phase_only=None, gen_status=st))
            out.append(dict(edges=[(0, 1), (0, 2), (1, 2)], dev=[['d', 2, 'pv+pq']], mode='read', phase_only=None, gen_status=st))
        out.append(dict(edges=[(0, 1), (0, 2), (1, 2)], dev=[['d', 1, 'pv']], mode='read', phase_only=None, close_inline=True))
        out.append(dict(edges=[(0, 1), (0, 2), (1, 2)], dev=[], mode='read', phase_only=None, close_inline=True))
        out.append(dict(edges=[(0, 1), (0, 2), (1, 2)], dev=[], mode='read', phase_only=1))
        out.append(dict(edges=[(0, 1), (0, 2), (1, 2)], dev=[['d', 1, 'pv']], mode='read', phase_only=2))
        return out

    def init_worker(self):
        self.tmp = tempfile.mkdtemp(prefix='c13m-')

    def execute(self, case):
        import andes
        from andes.io import matpower as mp
        from vmc.checks.c01 import relabel
        out = Outcome()
        seen = set()

        sfx = ':base50' if case.get('base') else ''

        def bad(sig, msg):
            sig += sfx
            if sig not in seen:
                seen.add(sig)
                out.bad(sig, msg)
        spec = spec_of(case)
        for ln in spec['Line']:
            ln.pop('g', None)          # MATPOWER has no branch conductance field
        for k_sh, sh in enumerate(spec['Shunt']):
            # express the shunt in MATPOWER units and keep the ANDES data on the system base
            sh['g_mw'], sh['b_mvar'] = 1.5 + 0.5 * k_sh, 6.0 + 2.0 * k_sh
            sh['g'], sh['b'], sh['Sn'] = sh['g_mw'] / 100.0, sh['b_mvar'] / 100.0, 100.0
            sh['Vn'] = [b['Vn'] for b in spec['Bus'] if b['idx'] == sh['bus']][0]
        for g in spec['PV']:
            g['Sn'] = 100.0
        try:
            if case['mode'] == 'read':
                text, ref = spec_to_mpc_text(spec, case.get('phase_only'), base=case.get('base', 100.0),
                                             gen_status=case.get('gen_status'), close_inline=bool(case.get('close_inline')))
                path = os.path.join(self.tmp, f'm-{os.getpid()}.m')
                open(path, 'w').write(text)
                ss = andes.load(path, no_output=True, default_config=True)
                os.remove(path)
                self.compare_read(ss, ref, bad)
                if len(ref['branch']) != ss.Line.n or len(ref['gen']) != ss.PV.n + ss.Slack.n:
                    bad('mpc_read:row_count' + (':close_inline' if case.get('close_inline') else ''),
                        f'{ss.Line.n} branches / {ss.PV.n + ss.Slack.n} generators read, the file has {len(ref["branch"])} / {len(ref["gen"])}')
                r = results(ss, dynamic=False)
                if r.get('pf') is not True and case.get('gen_status') is None:
                    bad('matpower_case_does_not_solve', f'power flow of the MATPOWER reading: {r.get("pf")}')
            else:
                if case.get('stridx'):
                    spec = relabel(spec)
                if case.get('base'):
                    for sh in spec['Shunt']:
                        sh['Sn'] = case['base']
                    for ln in spec['Line']:
                        ln['Sn'] = case['base']
                s1 = build_from_spec(spec, mva=case.get('base'))
                mpc = mp.system2mpc(s1)
                s2 = andes.System(no_output=True, default_config=True)
                mp.mpc2system(mpc, s2)
                s2.setup()
                self.compare_equiv(s1, s2, spec, bad)
                compare_results(results(s1, False), results(s2, False), bad, 'mpc')
        except Exception as e:
            import traceback
            tb = traceback.extract_tb(e.__traceback__)
            kind = 'stridx' if case.get('stridx') else case['mode']
            bad(f'raises:{kind}:{type(e).__name__}@{tb[-1].name if tb else "?"}', f'{type(e).__name__}: {e}')
        out.obs = dict(mode=case['mode'], dev=case['dev'])
        return out

    @staticmethod
    def compare_read(ss, ref, bad):
        for i, b in enumerate(ss.Bus.idx.v):
            r = ref['bus'][b]
            if abs(ss.Bus.Vn.v[i] - r['Vn']) > 1e-9:
                bad('mpc_read:bus_kv', f'bus {b}: Vn {ss.Bus.Vn.v[i]} vs {r["Vn"]}')
            p = sum(ss.PQ.p0.v[k] for k in range(ss.PQ.n) if ss.PQ.bus.v[k] == b and ss.PQ.u.v[k])
            q = sum(ss.PQ.q0.v[k] for k in range(ss.PQ.n) if ss.PQ.bus.v[k] == b and ss.PQ.u.v[k])
            if abs(p - r['pd']) > 1e-9 or abs(q - r['qd']) > 1e-9:
                bad('mpc_read:load', f'bus {b}: load {p}+j{q} vs {r["pd"]}+j{r["qd"]}')
            g = sum(ss.Shunt.g.v[k] for k in range(ss.Shunt.n) if ss.Shunt.bus.v[k] == b)
            bb = sum(ss.Shunt.b.v[k] for k in range(ss.Shunt.n) if ss.Shunt.bus.v[k] == b)
            if abs(g - r['gs']) > 1e-9 or abs(bb - r['bs']) > 1e-9:
                bad('mpc_read:shunt', f'bus {b}: shunt {g}+j{bb} vs {r["gs"]}+j{r["bs"]}')
        gens = [(m.bus.v[k], m.p0.v[k], m.v0.v[k], m.u.v[k], m is ss.Slack) for m in (ss.Slack, ss.PV) for k in range(m.n)]
        for r in ref['gen']:
            hit = [g for g in gens if g[0] == r['bus'] and abs(g[1] - r['p0']) < 1e-9 and abs(g[2] - r['v0']) < 1e-9 and
                   int(g[3]) == r['u'] and g[4] == r['slack']]
            if not hit:
                bad('mpc_read:generator', f'generator {r} not found among {gens}')
        for k, r in enumerate(ref['branch']):
            L = ss.Line
            got = dict(bus1=L.bus1.v[k], bus2=L.bus2.v[k], r=L.r.v[k], x=L.x.v[k], b=L.b.v[k], tap=L.tap.v[k],
                       phi=L.phi.v[k], u=int(L.u.v[k]))
            for key in ('bus1', 'bus2', 'u'):
                if got[key] != r[key]:
                    bad(f'mpc_read:branch_{key}', f'branch {k}: {key} {got[key]} vs {r[key]}')
            for key in ('r', 'x', 'b', 'tap'):
                if abs(got[key] - r[key]) > 1e-9:
                    bad(f'mpc_read:branch_{key}', f'branch {k}: {key} {got[key]} vs {r[key]}')
            if abs(got['phi'] - r['phi']) > 1e-9:
                cls = 'ratio0' if (r['tap'] == 1.0 and abs(r['phi']) > 0) else 'with_ratio'
                bad(f'mpc_read:branch_phase_shift:{cls}', f'branch {k}: phi {got["phi"]} vs {r["phi"]} rad')

    @staticmethod
    def compare_equiv(s1, s2, spec, bad):
        def per_bus(ss, key_of):
            tot = {}
            for i in range(ss.PQ.n):
                if ss.PQ.u.v[i]:
                    k = key_of(ss, ss.PQ.bus.v[i])
                    t = tot.setdefault(k, [0, 0, 0, 0])
                    t[0] += ss.PQ.p0.v[i]
                    t[1] += ss.PQ.q0.v[i]
            for i in range(ss.Shunt.n):
                if ss.Shunt.u.v[i]:
                    k = key_of(ss, ss.Shunt.bus.v[i])
                    t = tot.setdefault(k, [0, 0, 0, 0])
                    t[2] += ss.Shunt.g.v[i]
                    t[3] += ss.Shunt.b.v[i]
            return tot
        pos = lambda ss, b: ss.Bus.idx2uid(b)       # NOQA: buses keep their order
        t1, t2 = per_bus(s1, pos), per_bus(s2, pos)
        for k in set(t1) | set(t2):
            a, b = t1.get(k, [0, 0, 0, 0]), t2.get(k, [0, 0, 0, 0])
            if max(abs(x - y) for x, y in zip(a[:2], b[:2])) > 1e-9:
                n_on = sum(1 for d in spec['PQ'] if s1.Bus.idx2uid(d['bus']) == k and d.get('u', 1))
                n_off = sum(1 for d in spec['PQ'] if s1.Bus.idx2uid(d['bus']) == k and not d.get('u', 1))
                cls = 'offline_load' if n_off else ('several_loads' if n_on > 1 else 'single')
                bad(f'mpc_export:bus_load_total:{cls}', f'bus #{k}: online load {a[:2]} exported/re-imported as {b[:2]}')
            if max(abs(x - y) for x, y in zip(a[2:], b[2:])) > 1e-9:
                bad('mpc_export:bus_shunt_total', f'bus #{k}: shunt {a[2:]} vs {b[2:]}')
        if s1.Line.n != s2.Line.n:
            bad('mpc_export:branch_count', f'{s1.Line.n} vs {s2.Line.n} branches')
        else:
            for k in range(s1.Line.n):
                for key in ('r', 'x', 'b', 'tap', 'phi', 'u'):
                    a, b = getattr(s1.Line, key).v[k], getattr(s2.Line, key).v[k]
                    if abs(a - b) > 1e-9:
                        bad(f'mpc_export:branch_{key}', f'branch {k}: {key} {a} vs {b}')
                for key in ('g', 'b1', 'b2', 'g1', 'g2'):
                    if abs(getattr(s1.Line, key).v[k]) > 0:
                        bad('mpc_export:branch_end_shunts_lost', f'branch {k}: {key} cannot be exported')
        g1 = sorted((s1.Bus.idx2uid(m.bus.v[k]), round(m.p0.v[k], 9), round(m.v0.v[k], 9), int(m.u.v[k])) for m in (s1.Slack, s1.PV) for k in range(m.n))
        g2 = sorted((s2.Bus.idx2uid(m.bus.v[k]), round(m.p0.v[k], 9), round(m.v0.v[k], 9), int(m.u.v[k])) for m in (s2.Slack, s2.PV) for k in range(m.n))
        if g1 != g2:
            bad('mpc_export:generators', f'generators {g1} vs {g2}')


# ------------------------------------------------------------------ PSS/E RAW

def spec_to_raw(spec, variant, xf3=None, gens=None):
    """Independent RAW v33 writer; returns (text, reference element data in ANDES conventions).
    xf3: optional three-winding transformer dict(buses, z12, z23, z31, windv, ang, mag, stat, cz, sb)."""
    base = float(variant.get('sbase', 100.0))
    L = [f'0, {base:.2f}, 33, 0, 1, 60.00 / generated', 'VMC GENERATED CASE', 'SECOND TITLE LINE']
    slack = {d['bus'] for d in spec['Slack']}
    pvb = {d['bus'] for d in spec['PV']}
    ref = dict(bus={}, load=[], shunt=[], gen=[], line=[])
    for b in spec['Bus']:
        ide = 3 if b['idx'] in slack else (2 if b['idx'] in pvb else 1)
        L.append(f"{b['idx']},'B{b['idx']}', {b['Vn']:.4f},{ide},1,1,1,1.00000,0.0000")
        ref['bus'][b['idx']] = dict(Vn=b['Vn'])
    L.append('0 / END OF BUS DATA, BEGIN LOAD DATA')
    for k, d in enumerate(spec['PQ']):
        pl, ql = d['p0'] * base, d['q0'] * base
        ip = iq = yp = yq = 0.0
        if variant.get('zip'):
            ip, iq, yp, yq = 0.2 * pl, 0.1 * ql, 0.1 * pl, -0.3 * ql
            pl, ql = 0.7 * pl, 0.6 * ql
        st = int(d.get('u', 1))
        L.append(f"{d['bus']},'{k + 1}',{st},1,1,{pl:.8f},{ql:.8f},{ip:.8f},{iq:.8f},{yp:.8f},{yq:.8f},1,1")
        # at the stated initial voltage 1.0: P = PL + IP + YP, Q = QL + IQ - YQ
        ref['load'].append(dict(bus=d['bus'], p0=(pl + ip + yp) / base, q0=(ql + iq - yq) / base, u=st))
    L.append('0 / END OF LOAD DATA, BEGIN FIXED SHUNT DATA')
    for k, d in enumerate(spec['Shunt']):
        st = int(d.get('u', 1))
        L.append(f"{d['bus']},'{k + 1}',{st},{1.5 + 0.25 * k:.6f},{6.0 + k:.6f}")
        ref['shunt'].append(dict(bus=d['bus'], g=(1.5 + 0.25 * k) / base, b=(6.0 + k) / base, u=st))
    L.append('0 / END OF FIXED SHUNT DATA, BEGIN GENERATOR DATA')
    for d in (gens if gens is not None else [dict(g, id='1', mbase=150.0) for g in spec['Slack'] + spec['PV']]):
        pg = d.get('p0', 0.0) * base
        st = int(d.get('u', 1))
        L.append(f"{d['bus']},'{d['id']}',{pg:.6f},0.000,9900.0,-9900.0,{d['v0']:.5f},0,{d['mbase']:.3f},0.0,0.25,0.0,0.0,1.0,{st},100.0,9999.0,0.0,1,1.0")
        ref['gen'].append(dict(bus=d['bus'], p0=pg / base, v0=d['v0'], u=st, Sn=d['mbase'], slack=d['bus'] in slack, id=d['id']))
    L.append('0 / END OF GENERATOR DATA, BEGIN BRANCH DATA')
    kv = {b['idx']: b['Vn'] for b in spec['Bus']}
    xf = []
    for k, ln in enumerate(spec['Line']):
        is_xf = ('tap' in ln or 'phi' in ln or kv[ln['bus1']] != kv[ln['bus2']])
        if is_xf:
            xf.append((k, ln))
            continue
        gi, bi, gj, bj = ((0.012, 0.034, 0.003, 0.051) if variant.get('endshunt') else (0.0, 0.0, 0.0, 0.0))
        st = int(ln.get('u', 1))
        L.append(f"{ln['bus1']},{ln['bus2']},'1',{ln['r']:.8f},{ln['x']:.8f},{ln.get('b', 0.0):.8f},0,0,0,{gi},{bi},{gj},{bj},{st},1,0.0,1,1.0")
        ref['line'].append(dict(bus1=ln['bus1'], bus2=ln['bus2'], r=ln['r'], x=ln['x'], b=ln.get('b', 0.0), g1=gi, b1=bi, g2=gj,
                                b2=bj, tap=1.0, phi=0.0, u=st, Sn=base, kind='line'))
    L.append('0 / END OF BRANCH DATA, BEGIN TRANSFORMER DATA')
    for k, ln in xf:
        cw = variant.get('cw', 1)
        cz = variant.get('cz', 1)
        t1 = ln.get('tap', 1.0)
        t2 = variant.get('windv2', 1.0)
        ang = round(math.degrees(ln.get('phi', 0.0)), 4)      # the value as printed in the file
        sbase = 250.0 if cz == 2 else base
        r, x = ln['r'], ln['x']
        rr, xx = (r * sbase / base, x * sbase / base) if cz == 2 else (r, x)      # same physical impedance on the winding base
        nomv1, nomv2 = kv[ln['bus1']], kv[ln['bus2']]
        w1, w2 = (t1, t2) if cw == 1 else (t1 * nomv1, t2 * nomv2)
        st = int(ln.get('u', 1))
        L.append(f"{ln['bus1']},{ln['bus2']},0,'1',{cw},{cz},1,0.0,0.0,2,'XF{k}',{st},1,1.0")
        L.append(f"{rr:.8f},{xx:.8f},{sbase:.2f}")
        L.append(f"{w1:.6f},{nomv1 if cw == 2 else 0.0:.3f},{ang:.4f},0,0,0,0,0,1.1,0.9,1.1,0.9,33,0,0.0,0.0,0.0")
        L.append(f"{w2:.6f},{nomv2 if cw == 2 else 0.0:.3f}")
        # equivalent single-tap model on the from side: ratio t1/t2, series impedance scaled by t2^2
        ref['line'].append(dict(bus1=ln['bus1'], bus2=ln['bus2'], r=r * t2 ** 2, x=x * t2 ** 2, b=0.0, g1=0, b1=0, g2=0, b2=0,
                                tap=t1 / t2, phi=math.radians(ang), u=st, Sn=base, kind='xf', zsys=(r + 1j * x) * t2 ** 2))
    if xf3:
        i, j, k = xf3['buses']
        cz = xf3.get('cz', 1)
        sb = xf3.get('sb', (base, base, base))          # winding-pair bases (used by CZ = 2)
        zz = [xf3['z12'], xf3['z23'], xf3['z31']]
        if cz == 2:
            zz = [z * sbp / base for z, sbp in zip(zz, sb)]    # the same physical impedances, on the winding-pair bases
        mg, mb = xf3.get('mag', (0.0, 0.0))
        L.append(f"{i},{j},{k},'1',1,{cz},1,{mg:.6f},{mb:.6f},2,'XF3W',{xf3.get('stat', 1)},1,1.0")
        L.append(','.join(f'{z.real:.8f},{z.imag:.8f},{sbp:.2f}' for z, sbp in zip(zz, sb)) + ',1.00000,0.0000')
        for w, a in zip(xf3['windv'], xf3['ang']):
            L.append(f"{w:.6f},0.000,{a:.4f},0,0,0,0,0,1.1,0.9,1.1,0.9,33,0,0.0,0.0,0.0")
    L.append('0 / END OF TRANSFORMER DATA, BEGIN AREA DATA')
    L.append("1,1,0.0,10.0,'AREA1'")
    for blk in ('AREA', 'TWO-TERMINAL DC', 'VSC DC LINE', 'IMPEDANCE CORRECTION', 'MULTI-TERMINAL DC', 'MULTI-SECTION LINE', 'ZONE',
                'INTER-AREA TRANSFER', 'OWNER', 'FACTS DEVICE', 'SWITCHED SHUNT', 'GNE'):
        L.append(f'0 / END OF {blk} DATA')
    L.append('Q')
    return '\n'.join(L) + '\n', ref


class Psse(Part):
    name = 'psse'
    chunk = 2
    timeout = 600.0
    nproc = 8

    def __init__(self, tier='quick'):
        self.tier = tier

    VARIANTS = [dict(), dict(zip=1), dict(endshunt=1), dict(cw=2), dict(cz=2), dict(windv2=0.97), dict(cw=2, cz=2, zip=1, endshunt=1),
                dict(sbase=50.0), dict(sbase=50.0, cw=2, cz=2, zip=1, endshunt=1)]

    def describe(self, tier):
        return ('triangle networks (RAW-expressible features) x variants (plain, ZIP load parts, branch end shunts GI/BI/GJ/BJ, '
                'CW=2, CZ=2, winding-2 tap, all together, system base 50 MVA): generated RAW v33 text -> System vs generator data')

    def cases(self, tier):
        out = []
        ok = ('plain', 'tap', 'phase', 'tap+phase', 'charging', 'off+parallel')
        for c in gen_specs(tier):
            if any(k == 'b' and f not in ok for k, e, f in c['dev']):
                continue
            for vi in range(len(self.VARIANTS)):
                if tier == 'quick' and vi and c['dev'] and not (c['dev'][0][0] == 'b' and c['dev'][0][2] in ('tap', 'tap+phase')):
                    continue
                out.append(dict(c, variant=vi))
        return out

    def init_worker(self):
        self.tmp = tempfile.mkdtemp(prefix='c13p-')

    def execute(self, case):
        import andes
        out = Outcome()
        seen = set()

        variant = self.VARIANTS[case['variant']]
        sfx = ':sbase50' if variant.get('sbase') else ''

        def bad(sig, msg):
            sig += sfx
            if sig not in seen:
                seen.add(sig)
                out.bad(sig, msg)
        spec = spec_of(case)
        text, ref = spec_to_raw(spec, variant)
        path = os.path.join(self.tmp, f'p-{os.getpid()}.raw')
        open(path, 'w').write(text)
        try:
            ss = andes.load(path, no_output=True, default_config=True)
        except Exception as e:
            import traceback
            tb = traceback.extract_tb(e.__traceback__)
            bad(f'raw_read_raises:{type(e).__name__}@{tb[-1].name if tb else "?"}', f'{type(e).__name__}: {e}')
            out.obs = dict(exc=type(e).__name__)
            return out
        finally:
            os.remove(path)
        if ss is None:
            bad('raw_not_loaded', 'andes.load returned None for generated RAW text')
            return out
        base = float(ss.config.mva)
        for i, b in enumerate(ss.Bus.idx.v):
            if b in ref['bus'] and abs(ss.Bus.Vn.v[i] - ref['bus'][b]['Vn']) > 1e-6:
                bad('raw:bus_kv', f'bus {b}')
        loads = sorted((ss.PQ.bus.v[k], round(ss.PQ.p0.v[k], 8), round(ss.PQ.q0.v[k], 8), int(ss.PQ.u.v[k])) for k in range(ss.PQ.n))
        exp = sorted((d['bus'], round(d['p0'], 8), round(d['q0'], 8), d['u']) for d in ref['load'])
        if loads != exp:
            bad('raw:load' + (':zip' if variant.get('zip') else ''), f'loads {loads} vs {exp}')
        sh = sorted((ss.Shunt.bus.v[k], round(ss.Shunt.g.v[k], 8), round(ss.Shunt.b.v[k], 8), int(ss.Shunt.u.v[k])) for k in range(ss.Shunt.n))
        exps = sorted((d['bus'], round(d['g'], 8), round(d['b'], 8), d['u']) for d in ref['shunt'])
        if sh != exps:
            bad('raw:fixed_shunt', f'shunts {sh} vs {exps}')
        gens = sorted((m.bus.v[k], round(m.p0.v[k], 8), round(m.v0.v[k], 8), int(m.u.v[k]), m is ss.Slack) for m in (ss.Slack, ss.PV) for k in range(m.n))
        expg = sorted((d['bus'], round(d['p0'], 8), round(d['v0'], 8), d['u'], d['slack']) for d in ref['gen'])
        if gens != expg:
            bad('raw:generator', f'generators {gens} vs {expg}')
        if ss.Line.n != len(ref['line']):
            bad('raw:branch_count', f'{ss.Line.n} vs {len(ref["line"])}')
        else:
            for k, r in enumerate(ref['line']):
                Ln = ss.Line
                if (Ln.bus1.v[k], Ln.bus2.v[k], int(Ln.u.v[k])) != (r['bus1'], r['bus2'], r['u']):
                    bad('raw:branch_terminals_or_status', f'branch {k}')
                # compare in system per unit (what the equations use)
                z = Ln.r.v[k] + 1j * Ln.x.v[k]
                zr = r.get('zsys', r['r'] + 1j * r['x'])
                if abs(z - zr) > 1e-7 * max(1, abs(zr)):
                    cls = 'windv2' if variant.get('windv2') and r['kind'] == 'xf' else ('cz2' if variant.get('cz') == 2 and r['kind'] == 'xf' else r['kind'])
                    bad(f'raw:branch_impedance:{cls}', f'branch {k}: z = {z} vs {zr} (system pu)')
                if abs(Ln.b.v[k] - r['b']) > 1e-8:
                    bad('raw:branch_charging', f'branch {k}: b {Ln.b.v[k]} vs {r["b"]}')
                for key in ('g1', 'b1', 'g2', 'b2'):
                    if abs(getattr(Ln, key).v[k] - r[key]) > 1e-9:
                        bad('raw:branch_end_shunts_dropped', f'branch {k}: {key} = {getattr(Ln, key).v[k]} vs {r[key]} in the file')
                        break
                if abs(Ln.tap.v[k] - r['tap']) > 1e-7:
                    cls = 'windv2' if variant.get('windv2') else f'cw{variant.get("cw", 1)}'
                    bad(f'raw:transformer_ratio:{cls}', f'branch {k}: tap {Ln.tap.v[k]} vs {r["tap"]}')
                if abs(Ln.phi.v[k] - r['phi']) > 1e-8:
                    bad('raw:transformer_phase', f'branch {k}: phi {Ln.phi.v[k]} vs {r["phi"]}')
        out.obs = dict(variant=variant, dev=case['dev'], lines=ss.Line.n)
        return out


class Psse3W(Part):
    """Three-winding transformers: the parsed network must be electrically the star equivalent of the record."""
    name = 'psse3w'
    chunk = 2
    timeout = 600.0
    nproc = 8

    VAR = [dict(), dict(windv=(1.03, 0.97, 1.0)), dict(ang=(0.0, 3.0, -2.0)), dict(sbase=50.0),
           dict(cz=2, sb=(250.0, 80.0, 120.0)), dict(mag=(0.002, -0.03)), dict(windv=(1.03, 0.97, 1.0), sbase=50.0),
           # STAT codes of the record: 0 all out, 2 / 3 / 4 = only winding 2 / 3 / 1 out of service
           dict(stat=0), dict(stat=2), dict(stat=3), dict(stat=4), dict(stat=2, mag=(0.002, -0.03))]

    def describe(self, tier):
        return ('triangle network + one three-winding transformer (1-2-3): variants plain, off-nominal winding ratios, winding '
                'angles, system base 50 MVA, CZ=2 with three different winding-pair bases, magnetising admittance, ratios + base, status codes 0 / 2 / 3 / 4; '
                'generated RAW v33 -> System; power-flow voltages at the original buses against the star equivalent solved by '
                'the independent network model')

    def cases(self, tier):
        return [dict(variant=i, dev=d) for i in range(len(self.VAR)) for d in ([], [['d', 1, 'pv']])]

    def init_worker(self):
        self.tmp = tempfile.mkdtemp(prefix='c13w-')

    def execute(self, case):
        import andes
        from vmc.checks.c01 import to_net
        out = Outcome()
        v = self.VAR[case['variant']]
        tag = ','.join(sorted(v)) or 'plain'
        spec = spec_of(dict(edges=[(0, 1), (0, 2), (1, 2)], dev=case['dev']))
        z12, z23, z31 = 0.01 + 0.12j, 0.008 + 0.09j, 0.012 + 0.2j           # pu on the system base
        xf3 = dict(buses=(1, 2, 3), z12=z12, z23=z23, z31=z31, windv=v.get('windv', (1.0, 1.0, 1.0)), ang=v.get('ang', (0.0, 0.0, 0.0)),
                   mag=v.get('mag', (0.0, 0.0)), cz=v.get('cz', 1), stat=v.get('stat', 1))
        base = float(v.get('sbase', 100.0))
        if 'sb' in v:
            xf3['sb'] = v['sb']
        else:
            xf3['sb'] = (base, base, base)
        text, ref = spec_to_raw(spec, dict(sbase=base) if 'sbase' in v else {}, xf3=xf3)
        path = os.path.join(self.tmp, f'w-{os.getpid()}.raw')
        open(path, 'w').write(text)
        try:
            ss = andes.load(path, no_output=True, default_config=True)
        except Exception as e:
            import traceback
            tb = traceback.extract_tb(e.__traceback__)
            out.bad(f'raw_read_raises:{type(e).__name__}@{tb[-1].name if tb else "?"}:{tag}', f'{type(e).__name__}: {e}')
            return out
        finally:
            os.remove(path)
        if ss is None:
            out.bad(f'raw_not_loaded:{tag}', 'andes.load returned None')
            return out
        ok = ss.PFlow.run()
        # ---- reference: the same network with the star equivalent, everything in per unit on the system base
        rspec = {k: [dict(d) for d in lst] for k, lst in spec.items()}
        for ln in rspec['Line']:
            ln['Sn'] = base              # the RAW text carries the spec's per-unit numbers on the case base
        star = 99
        if xf3['stat'] != 0:          # with the whole transformer out of service the star point is not part of the network
            rspec['Bus'].append(dict(idx=star, name='STAR', Vn=1.0, vmax=1.6, vmin=0.4))
        zs = [(z12 + z31 - z23) / 2, (z12 + z23 - z31) / 2, (z23 + z31 - z12) / 2]
        kv = {b['idx']: b['Vn'] for b in spec['Bus']}
        for n_, (b, z, w, a) in enumerate(zip((1, 2, 3), zs, xf3['windv'], xf3['ang'])):
            ln = dict(idx=f'W{n_}', bus1=b, bus2=star, r=z.real, x=z.imag, tap=w, phi=math.radians(a), Vn1=kv[b], Vn2=1.0, Sn=base)
            out_of_service = {0: (0, 1, 2), 1: (), 2: (1,), 3: (2,), 4: (0,)}[xf3['stat']]
            ln['u'] = 0 if n_ in out_of_service else 1
            if xf3['stat'] == 0:
                continue
            if n_ == 0 and any(xf3['mag']):
                ln['g1'], ln['b1'] = xf3['mag']           # magnetising admittance sits at the winding-1 bus
            rspec['Line'].append(ln)
        net = to_net(rspec)
        net.Sb = base
        try:
            Vref = net.solve()
        except Exception:
            Vref = None
        if Vref is None:
            out.obs = dict(skipped='reference does not solve')
            return out
        if not ok:
            out.bad(f'xf3:parsed_case_does_not_solve:{tag}', 'power flow of the parsed RAW case fails; the star equivalent solves')
            return out
        worst = 0.0
        for k, b in enumerate(ss.Bus.idx.v):
            if b in (1, 2, 3):
                V = ss.Bus.v.v[k] * np.exp(1j * ss.Bus.a.v[k])
                worst = max(worst, abs(V - Vref[b]))
        if worst > 1e-6:
            out.bad(f'xf3:voltages_differ_from_star_equivalent:{tag}', f'three-winding variant {tag}: bus voltages differ from the '
                                                                       f'star-equivalent solution by {worst:.3e} pu')
        out.obs = dict(variant=tag, worst=float(f'{worst:.2e}'), lines=int(ss.Line.n), buses=int(ss.Bus.n))
        out.nontrivial = True
        return out


# ------------------------------------------------------------------ PSS/E dynamic data (dyr)

# Field order of each record after IBUS 'MODEL' ID, written from the PSS/E model library documentation (NOT from the yaml map
# under test), with the ANDES parameter that holds the field. 'H' is the inertia constant (ANDES stores M = 2H).
DYR_FIELDS = {
    'GENROU': ['Td10', 'Td20', 'Tq10', 'Tq20', 'H', 'D', 'xd', 'xq', 'xd1', 'xq1', 'xd2', 'xl', 'S10', 'S12'],
    'GENSAL': ['Td10', 'Td20', 'Tq20', 'H', 'D', 'xd', 'xq', 'xd1', 'xd2', 'xl', 'S10', 'S12'],
    'GENCLS': ['H', 'D'],
    'SEXS': ['TATB', 'TB', 'K', 'TE', 'EMIN', 'EMAX'],
    'EXST1': ['TR', 'VIMAX', 'VIMIN', 'TC', 'TB', 'KA', 'TA', 'VRMAX', 'VRMIN', 'KC', 'KF', 'TF'],
    'IEEET1': ['TR', 'KA', 'TA', 'VRMAX', 'VRMIN', 'KE', 'TE', 'KF', 'TF', 'Switch', 'E1', 'SE1', 'E2', 'SE2'],
    'IEEEX1': ['TR', 'KA', 'TA', 'TB', 'TC', 'VRMAX', 'VRMIN', 'KE', 'TE', 'KF1', 'TF1', '-Switch', 'E1', 'SE1', 'E2', 'SE2'],
    'ESST3A': ['TR', 'VIMAX', 'VIMIN', 'KM', 'TC', 'TB', 'KA', 'TA', 'VRMAX', 'VRMIN', 'KG', 'KP', 'KI', 'VBMAX', 'KC', 'XL', 'VGMAX',
               '-THETAP', 'TM', 'VMMAX', 'VMMIN'],
    'TGOV1': ['R', 'T1', 'VMAX', 'VMIN', 'T2', 'T3', 'Dt'],
    'IEEEG1': ['-JBUS', '-M', 'K', 'T1', 'T2', 'T3', 'UO', 'UC', 'PMAX', 'PMIN', 'T4', 'K1', 'K2', 'T5', 'K3', 'K4', 'T6', 'K5', 'K6',
               'T7', 'K7', 'K8'],
    'GAST': ['R', 'T1', 'T2', 'T3', 'AT', 'KT', 'VMAX', 'VMIN', 'Dt'],
    'HYGOV': ['R', 'r', 'Tr', 'Tf', 'Tg', 'VELM', 'GMAX', 'GMIN', 'Tw', 'At', 'Dt', 'qNL'],
    'IEEEST': ['MODE', '-IB', 'A1', 'A2', 'A3', 'A4', 'A5', 'A6', 'T1', 'T2', 'T3', 'T4', 'T5', 'T6', 'KS', 'LSMAX', 'LSMIN', 'VCU', 'VCL'],
}
DYR_DEST = {'GENSAL': 'GENROU'}
DYR_KIND = {'GENROU': 'syn', 'GENSAL': 'syn', 'GENCLS': 'syn', 'SEXS': 'exc', 'EXST1': 'exc', 'IEEET1': 'exc', 'IEEEX1': 'exc',
            'ESST3A': 'exc', 'TGOV1': 'gov', 'IEEEG1': 'gov', 'GAST': 'gov', 'HYGOV': 'gov', 'IEEEST': 'pss'}
DYR_MACHINES = [(1, '1', 900.0), (2, '1', 600.0), (2, '2', 300.0)]     # (bus, id, MBASE) of the generators in the RAW file
DYR_PLANS = {
    'A': [('GENROU', 0), ('GENROU', 1), ('GENCLS', 2), ('SEXS', 0), ('EXST1', 1), ('IEEEG1', 0), ('TGOV1', 1), ('IEEEST', 1)],
    'B': [('GENSAL', 0), ('GENCLS', 1), ('GENROU', 2), ('IEEET1', 0), ('ESST3A', 2), ('GAST', 0), ('HYGOV', 2), ('IEEEST', 2)],
    'C': [('GENROU', 0), ('GENROU', 1), ('GENROU', 2), ('IEEEX1', 0), ('IEEEX1', 1), ('SEXS', 2), ('TGOV1', 0), ('TGOV1', 1),
          ('TGOV1', 2), ('IEEEST', 0)],
}


def dyr_value(model, machine, k, name):
    """A distinct, legal number for field k of a record."""
    base = 0.2 + 0.07 * k + 0.011 * machine + 0.003 * (sum(map(ord, model)) % 7)
    if name in ('VIMIN', 'VRMIN', 'EMIN', 'LSMIN', 'VMIN', 'VMMIN', 'PMIN', 'GMIN', 'UC'):
        return -base
    if name in ('MODE', 'Switch'):
        return 1 if name == 'MODE' else 0
    if name in ('-IB', '-JBUS', '-M'):
        return 0
    if name in ('S10',):
        return 0.05 + 0.01 * machine
    if name in ('S12',):
        return 0.3 + 0.01 * machine
    if name in ('xd', 'xq'):
        return 1.5 + base
    if name in ('xd1', 'xq1'):
        return 0.4 + 0.1 * base
    if name in ('xd2',):
        return 0.25 + 0.01 * machine
    if name in ('xl',):
        return 0.1 + 0.01 * machine
    if name in ('H',):
        return 3.0 + base
    return base


class PsseDyr(Part):
    """PSS/E dynamic data: every record must land on the machine named by (IBUS, ID), field by field."""
    name = 'dyr'
    chunk = 1
    timeout = 600.0
    nproc = 8

    def describe(self, tier):
        return (f'RAW triangle with three generators (two on one bus, ids 1/2, three MBASE values) + generated dyr text: placement '
                f'plans {list(DYR_PLANS)} over {sorted(DYR_FIELDS)} x record order (as planned, reversed, dependents first) x layout '
                f'(one line, wrapped lines): every field of every record against the field order of the PSS/E documentation, '
                f'attachment to the machine named by (IBUS, ID), M = 2H, machine base = MBASE of that generator')

    def cases(self, tier):
        return [dict(plan=p, order=o, layout=lay) for p in DYR_PLANS for o in ('planned', 'reversed', 'dependents_first')
                for lay in ('line', 'wrapped')]

    def init_worker(self):
        self.tmp = tempfile.mkdtemp(prefix='c13d-')

    def execute(self, case):
        import andes
        out = Outcome()
        seen = set()

        def bad(sig, msg):
            if sig not in seen:
                seen.add(sig)
                out.bad(sig, msg)
        spec = spec_of(dict(edges=[(0, 1), (0, 2), (1, 2)], dev=[['d', 1, 'pv']]))
        gens = [dict(bus=1, id='1', p0=0.0, v0=1.02, mbase=900.0), dict(bus=2, id='1', p0=0.25, v0=1.01, mbase=600.0),
                dict(bus=2, id='2', p0=0.15, v0=1.01, mbase=300.0)]
        raw_text, _ = spec_to_raw(spec, {}, gens=gens)
        plan = list(DYR_PLANS[case['plan']])
        if case['order'] == 'reversed':
            plan = plan[::-1]
        elif case['order'] == 'dependents_first':
            plan = sorted(plan, key=lambda r: {'pss': 0, 'gov': 1, 'exc': 2, 'syn': 3}[DYR_KIND[r[0]]])
        lines = []
        records = []
        for model, mi in plan:
            bus, gid, mbase = DYR_MACHINES[mi]
            vals = [dyr_value(model, mi, k, name) for k, name in enumerate(DYR_FIELDS[model])]
            records.append((model, mi, vals))
            toks = [f'{v:.6g}' for v in vals]
            head = f"{bus} '{model}' {gid}"
            if case['layout'] == 'line':
                lines.append(head + ' ' + ' '.join(toks) + ' /')
            else:
                lines.append(head + ' ' + ' '.join(toks[:3]))
                for i in range(3, len(toks), 5):
                    lines.append('      ' + ' '.join(toks[i:i + 5]))
                lines[-1] += ' /'
        rawp = os.path.join(self.tmp, f'd-{os.getpid()}.raw')
        dyrp = os.path.join(self.tmp, f'd-{os.getpid()}.dyr')
        open(rawp, 'w').write(raw_text)
        open(dyrp, 'w').write('\n'.join(lines) + '\n')
        try:
            ss = andes.load(rawp, addfile=dyrp, no_output=True, default_config=True)
        except Exception as e:
            import traceback
            tb = traceback.extract_tb(e.__traceback__)
            bad(f'dyr_read_raises:{type(e).__name__}@{tb[-1].name if tb else "?"}', f'{type(e).__name__}: {e}')
            return out
        finally:
            for f in (rawp, dyrp):
                if os.path.exists(f):
                    os.remove(f)
        if ss is None:
            bad('dyr_not_loaded', 'andes.load returned None')
            return out
        # static generator of each machine slot
        sg = {}
        for m in (ss.Slack, ss.PV):
            for k in range(m.n):
                sg[(m.bus.v[k], str(m.subidx.v[k]).strip())] = (m, k)

        def machine_of(bus, gid):
            hits = []
            for mdl in ss.SynGen.models.values():
                for k in range(mdl.n):
                    g = mdl.gen.v[k]
                    gm = ss.StaticGen.idx2model(g)
                    gk = gm.idx2uid(g)
                    if (gm.bus.v[gk], str(gm.subidx.v[gk]).strip()) == (bus, gid):
                        hits.append((mdl, k))
            return hits
        checked = 0
        for model, mi, vals in records:
            bus, gid, mbase = DYR_MACHINES[mi]
            dest = DYR_DEST.get(model, model)
            kind = DYR_KIND[model]
            mach = machine_of(bus, gid)
            if len(mach) != 1:
                bad(f'dyr:machine_count:{model}', f'{len(mach)} machines on generator ({bus}, {gid!r}) for record {model}')
                continue
            mmdl, mk = mach[0]
            if kind == 'syn':
                mdl, k = mmdl, mk
                if mdl.class_name != dest:
                    bad(f'dyr:wrong_destination:{model}', f'({bus},{gid}): {mdl.class_name} instead of {dest}')
                    continue
                if abs(mdl.Sn.v[k] - mbase) > 1e-9:
                    bad(f'dyr:machine_base_wrong:{model}', f'({bus},{gid}): Sn = {mdl.Sn.v[k]} vs MBASE {mbase}')
            else:
                mdl = getattr(ss, dest)
                midx = mmdl.idx.v[mk]
                if kind == 'pss':
                    # a stabiliser is linked to the exciter of the machine
                    ex = [(em, ek) for em in ss.Exciter.models.values() for ek in range(em.n) if em.syn.v[ek] == midx]
                    ks = [i for i in range(mdl.n) if ex and mdl.avr.v[i] == ex[0][0].idx.v[ex[0][1]]]
                else:
                    ks = [i for i in range(mdl.n) if mdl.syn.v[i] == midx]
                if len(ks) != 1:
                    bad(f'dyr:attachment_wrong:{model}', f'record {model} at ({bus},{gid}): {len(ks)} devices attached to that machine')
                    continue
                k = ks[0]
            for name, val in zip(DYR_FIELDS[model], vals):
                if name.startswith('-'):
                    continue
                pname, want = ('M', 2 * val) if name == 'H' else (name, val)
                p = getattr(mdl, pname, None)
                if p is None:
                    bad(f'dyr:no_such_parameter:{model}.{pname}', f'{dest} has no parameter {pname}')
                    continue
                got = (p.vin if getattr(p, 'vin', None) is not None else p.v)[k]
                checked += 1
                if abs(float(got) - want) > 1e-6 * max(1.0, abs(want)):
                    bad(f'dyr:field_wrong:{model}.{pname}', f'record {model} at ({bus},{gid}): {pname} = {got} but the file gives '
                                                            f'{want:.6g}')
            if model in ('GENROU', 'GENSAL') and 'xd2' in DYR_FIELDS[model]:
                x2 = vals[DYR_FIELDS[model].index('xd2')]
                got = mdl.xq2.vin[k]
                if abs(got - x2) > 1e-6:
                    bad(f'dyr:field_wrong:{model}.xq2', f'({bus},{gid}): xq2 = {got}, the file gives X\'\'d = X\'\'q = {x2}')
        out.obs = dict(plan=case['plan'], order=case['order'], layout=case['layout'], fields=checked)
        out.transitions = len(records)
        out.nontrivial = True
        return out


def parts(tier):
    return [Stock(), Generated(tier), Matpower(tier), Psse(tier), Psse3W(), PsseDyr()]


def run(run, only=None):
    for p in parts(run.tier):
        if only and p.name != only:
            continue
        run.run_part(p, audit=2)
    run.assumptions += ['numeric-looking string indices are excluded from the xlsx leg (a spreadsheet cannot carry the distinction)',
                        'MATPOWER cannot express end shunts or own bases: those features are not passed to the MATPOWER legs',
                        'RAW generator follows the PSS/E v33 record layout of the stock files; three-winding transformers only via '
                        'stock cases', 'PSS/E two-winding equivalent: ratio t1/t2 on the from side, series impedance scaled by t2^2']
    rule = ('all stand-alone stock cases x 2 formats; generated triangle family x extras x formats; independent MATPOWER / RAW '
            'text generators against the parsed systems; non-trivial = every execution')
    return run.finish(rule)
