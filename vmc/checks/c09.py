"""
C09 - limiters and other discrete components enforce their documented semantics.

flags   : memoryless components (Limiter / HardLimiter / SortedLimiter / LessThan / IsEqual / DeadBand / Switcher /
          Selector / RateLimiter): every configuration x the full (u, lower, upper) lattice {-2..2}^3
          (equality and inverted limits included), evaluated through the real classes.
aw      : AntiWindup / AntiWindupRate: every two-call history over (x, sign of derivative, iteration count) x limit
          pairs; pegged state => derivative 0 and value at the limit.
dbrt    : DeadBandRT: every below/inside/above input history of depth <= 5 (7).
history : Delay(step/time) / Average / Derivative / Sampling: every time-move history (repeat, +h, +2h, +h/2,
          rewind inside the last step) of depth <= 5 (6) x every 3-level input history, from the initial state.
sim     : simulations in which limiters bind: every stored instant of every anti-windup-limited state.
"""

import itertools

import numpy as np

from vmc.core import Outcome, Part
from vmc.refs import discrete as ref

L = [-2.0, -1.0, 0.0, 1.0, 2.0]


def stubs(n):
    from andes.core.param import NumParam
    from andes.core.var import Algeb, State
    return NumParam, Algeb, State


def lattice3():
    pts = np.array(list(itertools.product(L, L, L)))
    return pts[:, 0].copy(), pts[:, 1].copy(), pts[:, 2].copy()


class Flags(Part):
    name = 'flags'
    chunk = 4
    timeout = 60.0

    def describe(self, tier):
        return ('Limiter configurations: equal x no_lower x no_upper x sign_lower x sign_upper x enable (64) + '
                'SortedLimiter n_select in {1, 3, 999} + LessThan/IsEqual/DeadBand/RateLimiter/Switcher/Selector, '
                'each on the 125-point lattice {-2,-1,0,1,2}^3')

    def cases(self, tier):
        out = []
        for equal, nl, nu, sl, su, en in itertools.product([True, False], [False, True], [False, True],
                                                           [1, -1], [1, -1], [True, False]):
            out.append(dict(cls='Limiter', equal=equal, no_lower=nl, no_upper=nu, sign_lower=sl, sign_upper=su,
                            enable=en))
        for equal, nl, nu in itertools.product([True, False], [False, True], [False, True]):
            out.append(dict(cls='HardLimiter', equal=equal, no_lower=nl, no_upper=nu, sign_lower=1, sign_upper=1,
                            enable=True))
        for ns in (1, 3, 999):
            out.append(dict(cls='SortedLimiter', n_select=ns))
        for equal in (True, False):
            out.append(dict(cls='LessThan', equal=equal))
            out.append(dict(cls='DeadBand', equal=equal))
        out.append(dict(cls='IsEqual'))
        out.append(dict(cls='RateLimiter'))
        out.append(dict(cls='Switcher'))
        out.append(dict(cls='Selector'))
        return out

    def execute(self, case):
        from andes.core import discrete as D
        from andes.core.param import NumParam
        from andes.core.var import Algeb, State
        out = Outcome()
        u, lo, up = lattice3()
        n = len(u)
        cls = case['cls']
        U = Algeb()
        U.v = u.copy()
        LO = NumParam()
        LO.v = lo.copy()
        UP = NumParam()
        UP.v = up.copy()
        nbad = {}

        def bad(sig, msg):
            nbad[sig] = nbad.get(sig, 0) + 1
            if nbad[sig] == 1:
                out.bad(sig, msg)
        if cls in ('Limiter', 'HardLimiter'):
            kw = {k: case[k] for k in ('equal', 'no_lower', 'no_upper', 'sign_lower', 'sign_upper', 'enable')}
            c = getattr(D, cls)(U, LO, UP, **kw)
            c.list2array(n)
            c.check_var()
            czl, czi, czu = (np.broadcast_to(a, (n,)) for a in (c.zl, c.zi, c.zu))
            for k in range(n):
                zl, zi, zu = ref.limiter(u[k], lo[k], up[k], **kw)
                got = (float(czl[k]), float(czi[k]), float(czu[k]))
                loe, upe = case['sign_lower'] * lo[k], case['sign_upper'] * up[k]
                degenerate = (not case['no_lower']) and (not case['no_upper']) and loe >= upe
                if got != (zl, zi, zu):
                    bad('flags_disagree_with_comparison', f'{cls}{kw}: u={u[k]}, lower={lo[k]}, upper={up[k]}: '
                        f'(zl,zi,zu)={got}, comparison says {(zl, zi, zu)}')
                if case['enable'] and sum(got) != 1:
                    key = 'lower>=upper' if degenerate else 'ordered_limits'
                    bad(f'flags_not_one_hot:{key}', f'{cls}{kw}: u={u[k]}, lower={loe}, upper={upe}: (zl,zi,zu)={got}')
            out.obs = dict(zl=czl.tolist(), zi=czi.tolist(), zu=czu.tolist())
        elif cls == 'SortedLimiter':
            keep = lo < up                      # the selection rule is only meaningful for ordered limits
            u, lo, up = u[keep], lo[keep], up[keep]
            n = len(u)
            U.v, LO.v, UP.v = u.copy(), lo.copy(), up.copy()
            c = D.SortedLimiter(U, LO, UP, n_select=case['n_select'])
            c.list2array(n)
            c.check_var()
            base = D.Limiter(U, LO, UP)
            base.list2array(n)
            base.check_var()
            ns = case['n_select']
            # documented: only the n_select largest violations on each side are flagged
            for side, flag, bflag, dist in (('upper', c.zu, base.zu, u - up), ('lower', c.zl, base.zl, lo - u)):
                viol = np.flatnonzero(bflag)
                if np.any(flag > bflag):
                    bad('sorted_flags_nonviolating', f'SortedLimiter(n_select={ns}) flags a non-violating element ({side})')
                if ns >= len(viol):
                    if not np.array_equal(flag, bflag):
                        bad('sorted_differs_when_all_selected', f'n_select={ns} >= {len(viol)} violations but flags differ')
                else:
                    if int(flag.sum()) != ns:
                        bad('sorted_wrong_count', f'n_select={ns}: {int(flag.sum())} flagged on {side}')
                    elif len(viol):
                        kept = np.flatnonzero(flag)
                        drop = np.setdiff1d(viol, kept)
                        if len(drop) and dist[kept].min() < dist[drop].max() - 1e-12:
                            bad('sorted_not_largest', f'n_select={ns}: kept violation {dist[kept].min()} while '
                                f'dropping {dist[drop].max()} ({side})')
            if not np.array_equal(c.zi, np.logical_not(np.logical_or(c.zu, c.zl)).astype(float)):
                bad('sorted_zi_inconsistent', 'zi != not(zu or zl)')
            out.obs = dict(zl=c.zl.tolist(), zu=c.zu.tolist())
        elif cls == 'LessThan':
            c = D.LessThan(U, LO, equal=case['equal'])
            c.list2array(n)
            c.check_var()
            exp = (u <= lo) if case['equal'] else (u < lo)
            if not np.array_equal(c.z1.astype(bool), exp) or not np.array_equal(c.z0.astype(bool), ~exp):
                bad('lessthan_wrong', f'LessThan(equal={case["equal"]}) flags differ from the comparison')
            out.obs = dict(z1=c.z1.tolist())
        elif cls == 'IsEqual':
            c = D.IsEqual(U, LO)
            c.list2array(n)
            c.check_var()
            if not np.array_equal(c.z1.astype(bool), u == lo):
                bad('isequal_wrong', 'IsEqual flags differ from ==')
            out.obs = dict(z1=c.z1.tolist())
        elif cls == 'DeadBand':
            CEN = NumParam()
            CEN.v = np.zeros(n)
            c = D.DeadBand(U, CEN, LO, UP, equal=case['equal'])
            c.list2array(n)
            c.check_var()
            for k in range(n):
                zl, zi, zu = ref.limiter(u[k], lo[k], up[k], equal=case['equal'])
                got = (float(c.zl[k]), float(c.zi[k]), float(c.zu[k]))
                if got != (zl, zi, zu):
                    bad('deadband_flags_wrong', f'DeadBand(equal={case["equal"]}): u={u[k]}, band=[{lo[k]},{up[k]}]: '
                        f'{got} vs {(zl, zi, zu)}')
                if lo[k] < up[k] and sum(got) != 1:
                    bad('deadband_not_one_hot', f'u={u[k]} band=[{lo[k]},{up[k]}]: {got}')
            out.obs = dict(zi=c.zi.tolist())
        elif cls == 'RateLimiter':
            X = State()
            X.v = np.zeros(n)
            X.e = u.copy()
            c = D.RateLimiter(X, LO, UP)
            c.list2array(n)
            c.check_eq()
            for k in range(n):
                if lo[k] > up[k]:
                    continue
                exp = min(max(u[k], lo[k]), up[k])
                if X.e[k] != exp:
                    bad('rate_not_clamped', f'rate {u[k]} with limits [{lo[k]},{up[k]}] -> {X.e[k]}, expected {exp}')
                if bool(c.zlr[k]) != (u[k] < lo[k]) or bool(c.zur[k]) != (u[k] > up[k]):
                    bad('rate_flags_wrong', f'rate {u[k]} limits [{lo[k]},{up[k]}]: zlr={c.zlr[k]}, zur={c.zur[k]}')
            out.obs = dict(e=X.e.tolist())
        elif cls == 'Switcher':
            opts = (0, 1, 2, 3)
            P = NumParam()
            P.v = np.array([0, 1, 2, 3, 2, 1, np.nan])
            c = D.Switcher(P, options=opts, cache=False)
            c.list2array(len(P.v))
            c.check_var()
            for k, v in enumerate(P.v):
                got = [float(getattr(c, f's{i}')[k]) for i in range(4)]
                exp = [float(v == o) for o in opts]
                if got != exp:
                    bad('switcher_flags_wrong', f'value {v}: {got} vs {exp}')
            P2 = NumParam()
            P2.v = np.array([0, 7.0])
            P2.name = 'p'
            c2 = D.Switcher(P2, options=opts, cache=False)

            class Owner:
                class_name = 'X'
            c2.owner = Owner()
            try:
                c2.list2array(2)
                bad('switcher_accepts_invalid_option', 'option 7 not in (0,1,2,3) accepted')
            except ValueError:
                pass
            out.obs = dict(ok=True)
        elif cls == 'Selector':
            A = Algeb()
            A.v = u.copy()
            B = Algeb()
            B.v = lo.copy()
            for fun, name in ((np.maximum.reduce, 'max'), (np.minimum.reduce, 'min')):
                c = D.Selector(A, B, fun=fun)
                c.list2array(n)
                c.check_var()
                for k in range(n):
                    if u[k] == lo[k]:
                        continue       # ties: documented pitfall of this deprecated class
                    want0 = (u[k] > lo[k]) if name == 'max' else (u[k] < lo[k])
                    if bool(c.s0[k]) != want0 or bool(c.s1[k]) == want0:
                        bad('selector_wrong', f'{name}({u[k]}, {lo[k]}): s0={c.s0[k]}, s1={c.s1[k]}')
            out.obs = dict(ok=True)
        out.transitions = n
        out.states = [f'{cls}:{k}:{case}' for k in range(0)] or None
        return out


class AW(Part):
    name = 'aw'
    chunk = 2
    timeout = 120.0

    def describe(self, tier):
        return ('AntiWindup and AntiWindupRate: limit pairs from {-1,0,1}^2 x sign flags; two consecutive check_eq calls, '
                'each over x in {-2..2} x derivative in {-1,0,1}, second call with niter in {0, 5}')

    def cases(self, tier):
        out = []
        for cls in ('AntiWindup', 'AntiWindupRate'):
            for lo, up in itertools.product([-1.0, 0.0, 1.0], repeat=2):
                for sl, su in (((1, 1), (-1, 1), (1, -1)) if cls == 'AntiWindup' else ((1, 1),)):
                    out.append(dict(cls=cls, lower=lo, upper=up, sign_lower=sl, sign_upper=su))
        return out

    def execute(self, case):
        from andes.core import discrete as D
        from andes.core.param import NumParam
        from andes.core.var import State
        out = Outcome()
        calls = list(itertools.product(L, [-1.0, 0.0, 1.0]))
        hist = list(itertools.product(calls, calls, [0, 5]))
        n = len(hist)
        X = State()
        X.v = np.array([h[0][0] for h in hist])
        X.e = np.array([h[0][1] for h in hist])
        X.a = np.arange(n)
        LO = NumParam()
        LO.v = np.full(n, case['lower'])
        UP = NumParam()
        UP.v = np.full(n, case['upper'])
        if case['cls'] == 'AntiWindup':
            c = D.AntiWindup(X, LO, UP, sign_lower=case['sign_lower'], sign_upper=case['sign_upper'])
        else:
            RL = NumParam()
            RL.v = np.full(n, -5.0)
            RU = NumParam()
            RU.v = np.full(n, 5.0)
            c = D.AntiWindupRate(X, LO, UP, RL, RU)
        c.list2array(n)
        lo = case['sign_lower'] * case['lower']
        up = case['sign_upper'] * case['upper']
        degenerate = lo >= up
        seen = {}

        def bad(sig, msg):
            if sig not in seen:
                seen[sig] = 1
                out.bad(sig, msg)
        c.check_eq(niter=0)
        first = []
        for k, h in enumerate(hist):
            r = ref.antiwindup(h[0][0], h[0][1], lo, up)
            first.append(r)
            got = (float(c.zl[k]), float(c.zi[k]), float(c.zu[k]), float(X.v[k]), float(X.e[k]))
            self.compare(bad, got, r, h[0], lo, up, degenerate, 'first call')
        # second call: new value / derivative (the solver moved the state), niter per history
        X.v[:] = np.array([h[1][0] for h in hist])
        X.e[:] = np.array([h[1][1] for h in hist])
        for nit in (0, 5):
            pass
        # niter is a scalar argument: run the two groups separately on copies of the flag state
        zl1, zu1 = c.zl.copy(), c.zu.copy()
        res = {}
        for nit in (0, 5):
            c.zl[:] = zl1
            c.zu[:] = zu1
            X.v[:] = np.array([h[1][0] for h in hist])
            X.e[:] = np.array([h[1][1] for h in hist])
            c.check_eq(niter=nit)
            res[nit] = (c.zl.copy(), c.zi.copy(), c.zu.copy(), X.v.copy(), X.e.copy())
        for k, h in enumerate(hist):
            nit = h[2]
            r = ref.antiwindup(h[1][0], h[1][1], lo, up, prev=(first[k][0], first[k][2]), niter=nit)
            fresh = ref.antiwindup(h[1][0], h[1][1], lo, up)
            if nit > 4 and ((first[k][0] and fresh[2]) or (first[k][2] and fresh[0])):
                continue    # locked on one side while the comparison now says the other: outside the documented rule
            g = res[nit]
            got = (float(g[0][k]), float(g[1][k]), float(g[2][k]), float(g[3][k]), float(g[4][k]))
            self.compare(bad, got, r, h[1], lo, up, degenerate, f'second call niter={nit} after {h[0]}')
        out.obs = dict(zl=res[0][0].tolist()[:40], zu=res[5][2].tolist()[:40])
        out.transitions = 2 * n
        return out

    @staticmethod
    def compare(bad, got, r, inp, lo, up, degenerate, where):
        key = 'lower>=upper' if degenerate else 'ordered_limits'
        zl, zi, zu, x, e = got
        if zl + zi + zu != 1:
            bad(f'aw_flags_not_one_hot:{key}', f'{where}: x={inp[0]}, dx={inp[1]}, limits [{lo},{up}]: (zl,zi,zu)={got[:3]}')
        if got[:3] != r[:3]:
            bad(f'aw_flags_disagree:{key}', f'{where}: x={inp[0]}, dx={inp[1]}, limits [{lo},{up}]: {got[:3]} vs {r[:3]}')
        if not zi:
            if e != 0.0:
                bad(f'aw_pegged_derivative_nonzero:{key}', f'{where}: pegged but derivative {e}')
            lim = up if zu else lo
            if zu + zl == 1 and x != lim:
                bad(f'aw_pegged_value_not_at_limit:{key}', f'{where}: pegged value {x}, limit {lim}')
            if zu + zl == 2 and x not in (lo, up):
                bad(f'aw_pegged_value_not_at_limit:{key}', f'{where}: both flags, value {x}, limits [{lo},{up}]')
        else:
            if (x, e) != (inp[0], inp[1]):
                bad(f'aw_unpegged_state_modified:{key}', f'{where}: state changed from {inp} to {(x, e)}')


class AWMove(Part):
    """
    Anti-windup limiter whose limit moves while a state is pegged (variable limits such as a voltage-dependent
    ceiling, or a limit parameter altered between two segments of a run): after the next evaluation the state, and
    the value scheduled for write-back to the global state vector (``x_set``), must sit at the limit in force now.
    """
    name = 'awmove'
    chunk = 2
    timeout = 120.0

    def describe(self, tier):
        return ('AntiWindup / AntiWindupRate, ordered limit pairs {(-1,1), (0,1), (-1,0), (-2,2)}; first check_eq over x in {-2..2} x '
                'derivative in {-1,0,1}; then one limit moved by +-0.5 (both limits, both directions) and a second and third '
                'check_eq with derivative in {-1,0,1}: flags, state value, derivative and the x_set write-back values against '
                'the reference evaluated with the limits in force')

    def cases(self, tier):
        out = []
        for cls in ('AntiWindup', 'AntiWindupRate'):
            for lo, up in ((-1.0, 1.0), (0.0, 1.0), (-1.0, 0.0), (-2.0, 2.0)):
                for which in ('upper', 'lower'):
                    for delta in (-0.5, 0.5):
                        out.append(dict(cls=cls, lower=lo, upper=up, which=which, delta=delta))
        return out

    def execute(self, case):
        out = Outcome()
        seen = {}

        def bad(sig, msg):
            if sig not in seen:
                seen[sig] = 1
                out.bad(sig, msg)
        obs = []
        # one component instance per (derivative in call 2, derivative in call 3): with equal derivatives the set of
        # pegged devices of the instance is the same in both calls (a cache keyed on that set must still follow the limit)
        for d2, d3 in itertools.product([-1.0, 0.0, 1.0], repeat=2):
            obs.append(self.one(case, d2, d3, bad))
        out.obs = obs
        out.transitions = 27 * len(L) * 3
        return out

    def one(self, case, d2, d3, bad):
        from andes.core import discrete as D
        from andes.core.param import NumParam
        from andes.core.var import State
        hist = list(itertools.product(L, [-1.0, 0.0, 1.0]))
        n = len(hist)
        X = State()
        X.v = np.array([h[0] for h in hist])
        X.e = np.array([h[1] for h in hist])
        X.a = np.arange(n)
        LO, UP = NumParam(), NumParam()
        LO.v = np.full(n, case['lower'])
        UP.v = np.full(n, case['upper'])
        if case['cls'] == 'AntiWindup':
            c = D.AntiWindup(X, LO, UP)
        else:
            RL, RU = NumParam(), NumParam()
            RL.v = np.full(n, -5.0)
            RU.v = np.full(n, 5.0)
            c = D.AntiWindupRate(X, LO, UP, RL, RU)
        c.list2array(n)

        def xset_values():
            vals = {}
            for addr, v, _ in c.x_set:
                for a, val in zip(np.atleast_1d(addr), np.atleast_1d(v)):
                    vals[int(a)] = float(val)
            return vals
        lo, up = case['lower'], case['upper']
        c.check_eq(niter=0)
        prev = [ref.antiwindup(h[0], h[1], lo, up) for h in hist]
        # the limit moves; the solver left the state where the limiter put it
        if case['which'] == 'upper':
            UP.v[:] = up + case['delta']
            up = up + case['delta']
        else:
            LO.v[:] = lo + case['delta']
            lo = lo + case['delta']
        for stage, d in ((2, d2), (3, d3)):
            xin = X.v.copy()
            X.e[:] = d
            c.check_eq(niter=0)
            xs = xset_values()
            for k, h in enumerate(hist):
                r = ref.antiwindup(float(xin[k]), d, lo, up, prev=(prev[k][0], prev[k][2]), niter=0)
                got = (float(c.zl[k]), float(c.zi[k]), float(c.zu[k]), float(X.v[k]), float(X.e[k]))
                where = (f'call {stage} after the {case["which"]} limit moved by {case["delta"]} (limits now [{lo},{up}]), '
                         f'state {xin[k]}, derivative {d}')
                AW.compare(bad, got, r, (float(xin[k]), d), lo, up, False, where)
                if not got[1]:
                    lim = up if got[2] else lo
                    if k not in xs:
                        bad('aw_pegged_state_not_scheduled_for_write_back', f'{where}: pegged but absent from x_set')
                    elif xs[k] != lim:
                        bad('aw_write_back_value_not_at_current_limit', f'{where}: x_set holds {xs[k]}, the limit in force is {lim}')
                elif k in xs:
                    bad('aw_unpegged_state_scheduled_for_write_back', f'{where}: not pegged but x_set holds {xs[k]}')
                prev[k] = r
            if stage == 2:
                # the limit keeps moving in the same direction before the third call
                step = 0.25 if case['delta'] > 0 else -0.25
                if case['which'] == 'upper':
                    UP.v[:] = up + step
                    up = up + step
                else:
                    LO.v[:] = lo + step
                    lo = lo + step
        return dict(zl=c.zl.tolist(), zu=c.zu.tolist(), x=X.v.tolist())


class DBRT(Part):
    name = 'dbrt'
    chunk = 64
    timeout = 60.0

    def __init__(self, tier='quick'):
        self.tier = tier

    def describe(self, tier):
        return f'DeadBandRT: all input histories over {{below, inside, above}} of depth <= {5 if tier == "quick" else 7}'

    def cases(self, tier):
        d = 5 if tier == 'quick' else 7
        out = []
        for r in range(1, d + 1):
            for s in itertools.product('bia', repeat=r):
                out.append(''.join(s))
        return out

    def execute(self, case):
        from andes.core import discrete as D
        from andes.core.param import NumParam
        from andes.core.var import Algeb
        out = Outcome()
        U = Algeb()
        U.v = np.array([0.0])
        LO, UP, CEN = NumParam(), NumParam(), NumParam()
        LO.v, UP.v, CEN.v = np.array([-1.0]), np.array([1.0]), np.array([0.0])
        c = D.DeadBandRT(U, CEN, LO, UP)
        c.list2array(1)
        exp = ref.deadband_rt(case)
        got = []
        for s in case:
            U.v[0] = {'b': -2.0, 'i': 0.0, 'a': 2.0}[s]
            c.check_var()
            got.append((float(c.zl[0]), float(c.zi[0]), float(c.zu[0]), float(c.zlr[0]), float(c.zur[0])))
        for k, (g, e) in enumerate(zip(got, exp)):
            if g[:3] != e[:3]:
                out.bad('dbrt_band_flags_wrong', f'history {case[:k + 1]}: {g[:3]} vs {e[:3]}')
                break
            if g[3:] != e[3:]:
                ret = 'set' if (e[3] or e[4]) else 'clear'
                out.bad(f'dbrt_return_flags_wrong:{ret}', f'history {case[:k + 1]}: (zlr,zur)={g[3:]}, documented rule '
                        f'gives {e[3:]}')
                break
        out.obs = dict(got=got)
        out.transitions = len(case)
        out.nontrivial = 'i' in case and len(set(case)) > 1
        return out


MOVES = ['same', 'h', '2h', 'h/2', 'rew']


class HistoryComp(Part):
    name = 'history'
    chunk = 16
    timeout = 120.0

    def __init__(self, tier='quick'):
        self.tier = tier
        self.depth = 5 if tier == 'quick' else 6

    def describe(self, tier):
        d = self.depth
        return (f'Delay(step,2) / Delay(time,0.15) / Average(step,2) / Derivative / Sampling(0.25): all time-move '
                f'histories of depth {d} over {MOVES} (5^{d}) x all 3-level input histories (3^{d}, vectorised over '
                f'devices); rewind = back into the last step only')

    def cases(self, tier):
        return [list(m) for m in itertools.product(range(len(MOVES)), repeat=self.depth)]

    def execute(self, case):
        from andes.core import discrete as D
        from andes.core.common import DummyValue
        out = Outcome()
        d = len(case)
        levels = [0.0, 1.0, -0.5]
        seqs = list(itertools.product(range(3), repeat=d + 1))   # input level per call (incl. t=0)
        n = len(seqs)
        data = DummyValue(0)
        data.v = np.zeros(n)
        comps = dict(dstep=D.Delay(u=data, mode='step', delay=2), dtime=D.Delay(u=data, mode='time', delay=0.15),
                     avg=D.Average(u=data, mode='step', delay=2), der=D.Derivative(u=data),
                     smp=D.Sampling(u=data, interval=0.25))
        for c in comps.values():
            c.list2array(n)
        # time sequence
        h = 0.1
        times = [0.0]
        prev = None
        for m in case:
            t = times[-1]
            mv = MOVES[m]
            if mv == 'same':
                nt = t
            elif mv == 'h':
                nt = t + h
            elif mv == '2h':
                nt = t + 2 * h
            elif mv == 'h/2':
                nt = t + h / 2
            else:
                # rewind into the last step (what a rejected step does); at t=0 nothing to rewind
                back = [x for x in sorted(set(times)) if x < t]
                nt = (t + back[-1]) / 2 if back else t
            times.append(nt)
        dead = {}
        hists = [ref.History() for _ in range(n)]
        smp_ref = np.zeros(n)
        smp_last_t = 0.0
        seen_inputs = [set() for _ in range(n)]
        last_smp = None
        first = {}
        smp_prev = None
        smp_t_change = 0.0
        for step, t in enumerate(times):
            data.v[:] = np.array([levels[s[step]] for s in seqs])
            for cname, c in list(comps.items()):
                if cname in dead:
                    continue
                try:
                    c.check_var(t)
                except Exception as e:
                    dead[cname] = (step, type(e).__name__, str(e))
            for k in range(n):
                hists[k].feed(t, float(data.v[k]))
                seen_inputs[k].add(float(data.v[k]))
            rew = hists[0].rewound

            def cmp(name, got, fn, tol=1e-9):
                if name in first:
                    return
                for k in range(n):
                    e = fn(hists[k])
                    if abs(got[k] - e) > tol:
                        first[name] = (step, k, float(got[k]), e)
                        return
            if 'dstep' not in dead:
                cmp('delay_step', comps['dstep'].v, lambda H: H.delay_step(2))
            if 'dtime' not in dead:
                cmp('delay_time', comps['dtime'].v, lambda H: H.delay_time(0.15))
            if 'avg' not in dead:
                cmp('average', comps['avg'].v, lambda H: H.average_step(2))
            if 'der' not in dead:
                cmp('derivative', comps['der'].v, lambda H: H.derivative())
            # sampling: value is an input actually seen; piecewise constant between sample instants
            sv = comps['smp'].v.copy()
            if 'sampling_unseen' not in first:
                for k in range(n):
                    if float(sv[k]) not in seen_inputs[k]:
                        first['sampling_unseen'] = (step, k, float(sv[k]), sorted(seen_inputs[k]))
                        break
            # documented sample-and-hold algorithm, judged on rewind-free prefixes only
            if 'rew' not in [MOVES[m] for m in case[:step]] and 'smp' not in dead:
                if t == 0:
                    smp_ref[:] = data.v
                    smp_last_t = 0.0
                elif t > times[step - 1] or t > smp_last_t:
                    if t - smp_last_t > 0.25:
                        smp_ref[:] = data.v
                        smp_last_t = t
                elif t == smp_last_t and t > 0:
                    smp_ref[:] = data.v
                if 'sampling_hold' not in first:
                    diff = np.flatnonzero(sv != smp_ref)
                    if len(diff):
                        first['sampling_hold'] = (step, int(diff[0]), float(sv[diff[0]]), float(smp_ref[diff[0]]))
            smp_prev = sv
        moves = [MOVES[m] for m in case]
        for cname, (step, ename, emsg) in dead.items():
            cls = 'after_rewind' if 'rew' in moves[:step] else 'forward_only'
            out.bad(f'{cname}_raises:{ename}:{cls}', f'moves {moves}, times {np.round(times, 4).tolist()}: check_var '
                    f'raised {ename}: {emsg} at call {step}')
        for name, (step, k, got, exp) in first.items():
            has_rew = 'rew' in moves[:step]
            cls = 'after_rewind' if has_rew else 'forward_only'
            if name == 'delay_time' and not has_rew and step >= 1 and moves[step - 1] == 'same':
                dist = sorted(set(times[:step + 1]))
                if len(dist) >= 2 and dist[-1] - dist[-2] > 0.15:
                    cls = 'repeated_time_with_delay_inside_last_step'
            out.bad(f'{name}_wrong:{cls}', f'moves {moves}, times {np.round(times, 4).tolist()}: at call {step} input '
                    f'history {[levels[i] for i in seqs[k][:step + 1]]}: output {got}, definition gives {exp}')
        out.obs = dict(times=np.round(times, 6).tolist(),
                       dstep=comps['dstep'].v[:9].tolist(), der=comps['der'].v[:9].tolist(),
                       avg=np.round(comps['avg'].v[:9], 9).tolist(), smp=comps['smp'].v[:9].tolist())
        out.transitions = n * (d + 1)
        out.nontrivial = len(set(times)) > 2
        return out


class Sim(Part):
    """Simulation level: anti-windup-limited states stay inside their limits at every stored instant."""
    name = 'sim'
    chunk = 1
    timeout = 600.0
    nproc = 8

    def describe(self, tier):
        return ('stock cases with binding limiters (kundur_aw, ieee14_fault, kundur_full + fault, ieee14_full + load step) '
                'x method x tstep; every stored instant x every AntiWindup component of every model')

    def cases(self, tier):
        base = [('kundur/kundur_aw.xlsx', None), ('ieee14/ieee14_fault.xlsx', None),
                ('kundur/kundur_full.xlsx', 'fault'), ('ieee14/ieee14_full.xlsx', 'load')]
        out = []
        for case, dist in base:
            for method in ('trapezoid', 'backeuler'):
                for h in ((1 / 30,) if tier == 'quick' else (1 / 30, 0.01)):
                    out.append(dict(case=case, dist=dist, method=method, tstep=h))
        return out

    def execute(self, case):
        from vmc import systems
        from andes.core.discrete import AntiWindup
        out = Outcome()
        ss = systems.load_case(case['case'], setup=False)
        if case['dist'] == 'fault':
            ss.add('Fault', dict(idx='FX', bus=ss.Bus.idx.v[6], tf=0.5, tc=0.6, xf=0.01))
        elif case['dist'] == 'load':
            ss.add('Alter', dict(idx='AX', model='PQ', dev=ss.PQ.idx.v[0], src='Ppf', attr='v', method='*',
                                 amount=3.0, t=0.5))
        ss.setup()
        systems.quiet_tds(ss)
        if case['dist'] == 'load':
            ss.PQ.config.p2p = 1.0
            ss.PQ.config.p2z = 0.0
        ss.PFlow.run()
        ss.TDS.config.tf = 3.0 if case['dist'] != 'load' else 5.0
        ss.TDS.config.tstep = case['tstep']
        ss.TDS.config.store_f = 1
        ss.TDS.set_method(case['method'])
        ss.TDS.config.method = case['method']
        ok = ss.TDS.run(no_summary=True)
        ts = ss.dae.ts
        x = np.array(ts.x)
        f = np.array(ts.f) if getattr(ts, 'f', None) is not None and len(ts.f) else None
        tol = ss.TDS.config.tol
        nbound = 0
        ncomp = 0
        worst = 0.0
        for mdl in ss.models.values():
            if mdl.n == 0:
                continue
            for name, dsc in mdl.discrete.items():
                if not isinstance(dsc, AntiWindup):
                    continue
                ncomp += 1
                st = dsc.state
                addr = np.asarray(st.a, dtype=int)
                lo = np.asarray(dsc.lower.v, dtype=float) * (-1 if dsc.sign_lower.v == -1 else 1)
                up = np.asarray(dsc.upper.v, dtype=float) * (-1 if dsc.sign_upper.v == -1 else 1)
                lo = np.broadcast_to(lo, addr.shape)
                up = np.broadcast_to(up, addr.shape)
                vals = x[:, addr]
                if dsc.no_lower:
                    lo = np.full(addr.shape, -np.inf)
                if dsc.no_upper:
                    up = np.full(addr.shape, np.inf)
                over = np.maximum(vals - up[None, :], lo[None, :] - vals)
                worst = max(worst, float(over.max()))
                at = (np.isclose(vals, up[None, :], atol=1e-12) | np.isclose(vals, lo[None, :], atol=1e-12))
                nbound += int(at.sum())
                if over.max() > 10 * tol:
                    r, c = np.unravel_index(np.argmax(over), over.shape)
                    out.bad('antiwindup_state_outside_limits', f'{mdl.class_name}.{name} device {c}: value {vals[r, c]:.6f} '
                            f'outside [{lo[c]}, {up[c]}] at t={ts.t[r]:.4f} (by {over.max():.3e})')
                if f is not None and f.shape == x.shape:
                    # a state sitting exactly on a limit with an outward derivative must have been held (f = 0)
                    fv = f[:, addr]
                    out_up = np.isclose(vals, up[None, :], atol=1e-12) & (fv > 10 * tol)
                    out_lo = np.isclose(vals, lo[None, :], atol=1e-12) & (fv < -10 * tol)
                    # stored f is that of the accepted iterate; the first row (t=0) is pre-check
                    out_up[0, :] = False
                    out_lo[0, :] = False
                    if out_up.any() or out_lo.any():
                        r, c = np.argwhere(out_up | out_lo)[0]
                        out.bad('pegged_state_has_outward_derivative', f'{mdl.class_name}.{name} device {c} at limit '
                                f'with stored derivative {fv[r, c]:.3e} at t={ts.t[r]:.4f}')
        if not ok:
            out.bad('run_failed', f'TDS.run returned False on {case}')
        out.obs = dict(ok=bool(ok), steps=len(ts.t), components=ncomp, bound_samples=nbound, worst=round(worst, 9))
        out.transitions = len(ts.t) * max(1, ncomp)
        out.nontrivial = nbound > 0
        return out


def parts(tier):
    return [Flags(), AW(), AWMove(), DBRT(tier), HistoryComp(tier), Sim()]


def run(run, only=None):
    for p in parts(run.tier):
        if only and p.name != only:
            continue
        run.run_part(p, audit=2)
    run.assumptions += ['reference semantics transcribed from each class docstring (vmc/refs/discrete.py)',
                        'Selector ties and AntiWindup(enable=False) are not judged (documented pitfall / undocumented)',
                        'rewinds are back into the last step only, which is what a rejected step produces',
                        'Sampling: only "value is an input seen so far" and "constant between sample instants" are judged']
    rule = ('full lattice x configuration enumeration for memoryless components; all histories up to the depth bound '
            'for stateful ones (vectorised over devices); every stored instant of simulations with binding limiters; '
            'non-trivial = history with >= 3 distinct times / limiter reached')
    return run.finish(rule)
