"""
C06 - scheduled events fire exactly once at their exact time; the time grid is exact.

Layer 1 ("real"): every multiset of <= 2 (quick) / 3 (thorough) events from a small
alphabet x time lattice x step configuration x resume split, run through the real
``TDS.run`` loop with the real Newton steps.
Layer 2 ("script"): the same loop with the step routine replaced by a scripted
environment answer (converged / not, iteration bucket); every script with <= 2 (3)
deviations from "converged fast" within the first K decision points.
Oracle: independent fold of the schedule (vmc.refs.events).
"""

import itertools

import numpy as np

from vmc.core import Outcome, Part
from vmc import systems
from vmc.rearm import Checkpoint

EPS = 1e-4

# ------------------------------------------------------------------ alphabet

TOGGLE_TARGETS = ['L3', 'L2']
ALTERS = [('P1', '+', 0.1), ('P1', '*', 1.5), ('P2', '=', 0.3)]


def lattice(tf):
    base = [0.0, 0.1, 0.25, 0.3, 0.3001, tf, tf + 0.5, -0.5]
    if tf > 10:
        base += [12.3, 10.0]
    return base


def ev_toggle(dev, t, u=1):
    return dict(kind='toggle', dev=dev, t=t, u=u)


def ev_alter(dev, method, amount, t, u=1):
    return dict(kind='alter', dev=dev, method=method, amount=amount, t=t, u=u)


def ev_fault(tf, tc, u=1):
    return dict(kind='fault', tf=tf, tc=tc, u=u)


def single_events(tf, full=True):
    out = []
    for t in lattice(tf):
        for dev in TOGGLE_TARGETS:
            for u in (1, 0):
                out.append(ev_toggle(dev, t, u))
        for dev, m, a in ALTERS:
            for u in ((1, 0) if full else (1,)):
                out.append(ev_alter(dev, m, a, t, u))
    # faults: on-time from lattice, clear = never / +0.1 / beyond tf
    for t in lattice(tf):
        for tc in (-1, t + 0.1, tf + 1.0):
            out.append(ev_fault(t, tc, 1))
        out.append(ev_fault(t, t + 0.1, 0))
    return out


def pair_events(tf):
    """Alphabet used inside multisets of size >= 2 (enabled only, 3 kinds)."""
    out = []
    for t in lattice(tf):
        out.append(ev_toggle('L3', t))
        out.append(ev_toggle('L2', t))
        out.append(ev_alter('P1', '+', 0.1, t))
    # faults: the only event model with two timers; pairs of them give tf of one == tc of the other, equal clearing
    # times, nested and back-to-back faults, and a Toggle coincident with a fault's start or clearance
    for a, b in ((0.1, 0.25), (0.25, 0.5), (0.25, 0.3001), (0.1, 0.5)):
        out.append(ev_fault(a, b))
    return out


# ------------------------------------------------------------------ reference

def expected(events, t0, tf):
    """Independent fold of the schedule: list of (time, order, event) that must fire."""
    fire = []
    nfault = 0
    for k, e in enumerate(events):
        if e['kind'] == 'fault':
            e = dict(e, slot=nfault)      # Fault devices are assigned in schedule order (see _Base.apply)
            nfault += 1
            if e['u'] and t0 <= e['tf'] <= tf:
                fire.append((e['tf'], k, 'fon', e))
            if e['u'] and t0 <= e['tc'] <= tf:
                fire.append((e['tc'], k, 'foff', e))
        else:
            if e['u'] and t0 <= e['t'] <= tf:
                fire.append((e['t'], k, e['kind'], e))
    fire.sort(key=lambda x: (x[0], x[1]))
    return fire


INIT = dict(L1=1.0, L2=1.0, L3=1.0, uf=0.0)


def fold(fire, upto, strict, init):
    st = dict(init)
    for t, k, what, e in fire:
        if (t < upto) if strict else (t <= upto):
            if what == 'toggle':
                st[e['dev']] = 1.0 - st[e['dev']]
            elif what == 'alter':
                v = st[e['dev']]
                st[e['dev']] = {'+': v + e['amount'], '*': v * e['amount'], '=': e['amount']}[e['method']]
            elif what == 'fon':
                st['uf%d' % e['slot']] = 1.0
            elif what == 'foff':
                st['uf%d' % e['slot']] = 0.0
    return st


# ------------------------------------------------------------------ executor

class _Base(Part):
    forked = False
    chunk = 8
    NT, NA, NF = 3, 7, 2

    def init_worker(self):
        self.sys = {}
        self.cp = {}
        for name in self.sysnames:
            ss = getattr(systems, name)(n_toggle=self.NT, n_alter=self.NA, n_fault=self.NF)
            ok = ss.PFlow.run()
            assert ok, 'checkpoint power flow failed'
            self.sys[name] = ss
            self.cp[name] = Checkpoint(ss)

    # -- apply a schedule to the live devices (public arrays; times are read at TDS.init)
    def apply(self, ss, events):
        it = iff = 0
        free = list(range(self.NA))
        slots = []
        for e in events:
            if e['kind'] == 'toggle':
                ss.Toggle.dev.v[it] = e['dev']
                ss.Toggle.t.v[it] = e['t']
                ss.Toggle.u.v[it] = e['u']
                slots.append(('Toggle', it))
                it += 1
            elif e['kind'] == 'alter':
                ia = [k for k in free if systems.ALTER_METHODS[k] == e['method']][0]
                free.remove(ia)
                ss.Alter.dev.v[ia] = e['dev']
                ss.Alter.amount.v[ia] = e['amount']
                ss.Alter.t.v[ia] = e['t']
                ss.Alter.u.v[ia] = e['u']
                slots.append(('Alter', ia))
            else:
                ss.Fault.tf.v[iff] = e['tf']
                ss.Fault.tc.v[iff] = e['tc']
                ss.Fault.u.v[iff] = e['u']
                slots.append(('Fault', iff))
                iff += 1
        return slots

    def instrument(self, ss, log):
        """Observation only: wrap the timer callbacks and the per-iteration perturbation hook."""
        def wrap(model, pname):
            timer = getattr(getattr(ss, model), pname)
            orig = timer.callback

            def cb(is_time):
                hits = [int(i) for i in np.flatnonzero(np.asarray(is_time))]
                if hits:
                    log['cb'].append((float(ss.dae.t), model, pname, hits))
                return orig(is_time)
            timer.callback = cb
        wrap('Toggle', 't')
        wrap('Alter', 't')
        wrap('Fault', 'tf')
        wrap('Fault', 'tc')

        custom = set(log.get('custom') or [])

        def pert(t, system):
            log['state'].append((float(t), self.snapshot(ss)))
            # a user perturbation that announces itself the documented way (cases/ieee14/pert.py): the flag asks for a
            # connectivity check and a Jacobian rebuild after the step that ends at t
            if float(t) in custom:
                system.TDS.custom_event = True
        ss.TDS.callpert = pert

    def snapshot(self, ss):
        st = {f'L{k + 1}': float(ss.Line.u.v[k]) for k in range(3)}
        st['P1'] = float(ss.PQ.Ppf.v[0])
        st['P2'] = float(ss.PQ.Ppf.v[1])
        for k in range(self.NF):
            st['uf%d' % k] = float(ss.Fault.uf.v[k])
        return st

    def run_tds(self, ss, case, log):
        c = ss.TDS.config
        c.tstep = case['tstep']
        c.fixt = case['fixt']
        c.criteria = case.get('criteria', 1)
        c.shrinkt = case.get('shrinkt', 1)
        rets = []
        if case.get('preinit'):
            c.tf = case['tf']
            ss.TDS.init()
        for seg_tf in list(case.get('splits', [])) + [case['tf']]:
            if rets and seg_tf <= c.tf:
                continue
            c.tf = seg_tf
            rets.append(bool(ss.TDS.run(no_summary=True)))
        return rets

    def oracle(self, out, ss, case, log, rets, script_active=False):
        events = case['events']
        tf = case['tf']
        fire = expected(events, 0.0, tf)
        stamps = [float(x) for x in ss.dae.ts.t]
        ok = all(rets)
        final_t = float(ss.dae.t)
        slots = log['slots']
        # map event k -> (model, pname, slot)
        cbs = {}
        for (t, model, pname, hits) in log['cb']:
            for h in hits:
                cbs.setdefault((model, pname, h), []).append(t)
        horizon = tf if ok else (stamps[-1] if stamps else -1.0)

        def tclass(t):
            return 't0' if t == 0.0 else ('tf' if t == tf else ('gt10' if t > 10 else 'interior'))

        # 1. exactly-once dispatch at the bit-exact instant
        for k, e in enumerate(events):
            model, slot = slots[k]
            timers = [('t', e.get('t'))] if e['kind'] != 'fault' else [('tf', e['tf']), ('tc', e['tc'])]
            for pname, te in timers:
                seen = cbs.get((model, pname, slot), [])
                must = 0.0 <= te <= horizon
                if must and e['u'] and len(seen) == 0:
                    out.bad(f'event_not_dispatched:{tclass(te)}',
                            f'{e["kind"]} event at t={te!r} never reached its callback', event=e)
                if len(seen) > 1:
                    out.bad('event_dispatched_twice', f'{e["kind"]} at t={te!r} dispatched at {seen}', event=e)
                for s in seen:
                    if s != te:
                        out.bad('event_wrong_time', f'{e["kind"]} scheduled {te!r} dispatched at {s!r}', event=e)
                if seen and not (0.0 <= te <= tf):
                    out.bad('event_outside_interval', f'{e["kind"]} at t={te!r} dispatched', event=e)
        # 2. effect: state seen while integrating to t_k is the fold of events strictly before t_k
        init = dict(log['init'])
        amb = _ambiguous(fire)
        for (tk, st) in log['state']:
            if tk <= 0.0:
                continue   # the t=0 iteration runs before any dispatch
            exp = fold(fire, tk, True, init)
            for key, val in exp.items():
                if key in amb:
                    continue
                if abs(st.get(key, 0.0) - val) > 1e-12:
                    cls = _cause(fire, tk, key)
                    out.bad(f'effect_mismatch:{cls}',
                            f'while stepping to t={tk!r}: {key}={st.get(key)!r}, schedule says {val!r}',
                            at=tk, key=key)
                    break
            else:
                continue
            break
        if ok:
            fin = self.snapshot(ss)
            exp = fold(fire, tf, False, init)
            for key, val in exp.items():
                if key in amb:
                    continue
                if abs(fin.get(key, 0.0) - val) > 1e-12:
                    out.bad(f'final_effect_mismatch:{_cause(fire, tf + 1, key)}',
                            f'after run: {key}={fin.get(key)!r}, schedule says {val!r}', key=key)
        # 3. time grid
        for a, b in zip(stamps, stamps[1:]):
            if not b > a:
                out.bad('stamps_not_increasing', f'stored stamps {a!r} -> {b!r}')
                break
        for (te, k, what, e) in fire:
            if te > horizon:
                continue
            if te not in stamps and te > 0.0:
                out.bad(f'no_step_ends_at_event:{tclass(te)}', f'no stored step ends at event time {te!r}', event=e)
            for a, b in zip(stamps, stamps[1:]):
                if a < te < b:
                    out.bad('step_crosses_event', f'step {a!r}->{b!r} crosses event at {te!r}', event=e)
                    break
        if case['fixt']:
            for a, b in zip(stamps, stamps[1:]):
                if b - a > case['tstep'] * (1 + 1e-9):
                    out.bad('step_exceeds_tstep', f'step {a!r}->{b!r} larger than tstep={case["tstep"]}')
                    break
        if stamps and stamps[-1] > tf:
            out.bad('step_past_tf', f'last stamp {stamps[-1]!r} beyond tf={tf!r}')
        if ok:
            if final_t != tf or not stamps or stamps[-1] != tf:
                out.bad('success_but_not_at_tf', f'run returned True with dae.t={final_t!r}, last stamp '
                        f'{stamps[-1] if stamps else None!r}, tf={tf!r}')
        elif not script_active and not case.get('may_fail'):
            out.bad('run_failed', f'run returned {rets} on a benign schedule; dae.t={final_t!r}, '
                    f'err={ss.TDS.err_msg!r}')
        if ok and ss.exit_code != 0:
            out.bad('exit_code_nonzero_on_success', f'exit_code={ss.exit_code}')


def _ambiguous(fire):
    """Targets hit by two non-commuting alters at one instant: order is not specified by the property."""
    amb = set()
    by = {}
    for t, k, what, e in fire:
        if what == 'alter':
            by.setdefault((t, e['dev']), set()).add(e['method'])
    for (t, dev), ms in by.items():
        if len(ms) > 1:
            amb.add(dev)
    return amb


def _cause(fire, upto, key):
    kinds = sorted({('t0' if t == 0.0 else 'later') + ':' + what for t, k, what, e in fire
                    if t < upto and (e.get('dev') == key or key.startswith('uf'))})
    return ','.join(kinds) or 'no_event_due'


class RealSteps(_Base):
    """Layer 1: real Newton steps."""
    name = 'real'
    sysnames = ('static3', 'smib')

    def describe(self, tier):
        return ('systems static3 (no differential state) and smib (GENCLS); all single events from the alphabet '
                'x time lattice; all multisets of 2%s events from the pair alphabet (toggle x2, alter, 4 faults with shared start / clearing times); '
                'a custom event (TDS.custom_event raised by a perturbation function) at / next to / away from scheduled events; TDS.init() called explicitly before TDS.run(); tstep in {0.1, 1/30, 0.033}, fixt in {1,0}; resume splits at every lattice time and te+-eps'
                % (' and 3' if tier == 'thorough' else ''))

    def cases(self, tier):
        out = []
        cfgs = [(0.1, 1), (1 / 30, 1), (0.033, 1), (0.1, 0)]
        tfs = [1.0]
        for sysname in self.sysnames:
            crit = 1
            for tf in tfs:
                sing = single_events(tf)
                for (tstep, fixt) in cfgs:
                    if sysname == 'smib' and (tstep, fixt) not in ((0.1, 1), (1 / 30, 1)) and tier == 'quick':
                        continue
                    out.append(dict(sys=sysname, tf=tf, tstep=tstep, fixt=fixt, events=[], criteria=crit))
                    for e in sing:
                        out.append(dict(sys=sysname, tf=tf, tstep=tstep, fixt=fixt, events=[e], criteria=crit))
                # pairs
                pe = pair_events(tf)
                pcfg = [(0.1, 1), (1 / 30, 1)] if tier == 'quick' else cfgs
                if sysname == 'smib' and tier == 'quick':
                    pcfg = [(0.1, 1)]
                for a, b in itertools.combinations_with_replacement(range(len(pe)), 2):
                    for (tstep, fixt) in pcfg:
                        out.append(dict(sys=sysname, tf=tf, tstep=tstep, fixt=fixt,
                                        events=[pe[a], pe[b]], criteria=crit))
                if tier == 'thorough' and sysname == 'static3':
                    small = [e for e in pe if e.get('t') in (0.1, 0.25, 0.3, 0.3001, tf)]
                    for tri in itertools.combinations_with_replacement(range(len(small)), 3):
                        out.append(dict(sys=sysname, tf=tf, tstep=0.1, fixt=1,
                                        events=[small[i] for i in tri], criteria=crit))
                # resume splits
                split_times = [0.1, 0.25 - EPS, 0.25, 0.25 + EPS, 0.3, 0.5, 0.77]
                scheds = [[ev_toggle('L3', 0.25)], [ev_toggle('L3', 0.25), ev_alter('P1', '+', 0.1, 0.3)],
                          [ev_fault(0.25, 0.35)], [ev_toggle('L2', 0.5), ev_toggle('L2', 0.5)]]
                for ev in scheds:
                    for s in split_times:
                        out.append(dict(sys=sysname, tf=tf, tstep=0.1, fixt=1, events=ev, splits=[s], criteria=crit))
                    for s1, s2 in itertools.combinations(split_times, 2):
                        out.append(dict(sys=sysname, tf=tf, tstep=0.1, fixt=1, events=ev, splits=[s1, s2],
                                        criteria=crit))
            # a custom event (the documented TDS.custom_event flag, raised by a perturbation function) at, next to and away
            # from a scheduled event: scheduled events must still fire exactly once
            for ev in ([ev_toggle('L3', 0.25)], [ev_alter('P1', '+', 0.1, 0.25)], [ev_alter('P1', '*', 1.5, 0.25)],
                       [ev_fault(0.1, 0.25)], [ev_toggle('L3', 0.25), ev_toggle('L2', 0.25)], [ev_toggle('L3', 1.0)], []):
                for cu in ([0.25], [0.25 + EPS], [0.3], [0.1, 0.25], [1.0]):
                    for (tstep, fixt) in ((0.1, 1), (1 / 30, 1)):
                        out.append(dict(sys=sysname, tf=1.0, tstep=tstep, fixt=fixt, events=ev, custom=cu, criteria=crit))
            # TDS.init() called explicitly before TDS.run() (a zero-length first segment: users do it to inspect the initial
            # values): the time grid and the dispatch must be those of a plain run
            for ev in ([], [ev_toggle('L3', 0.0)], [ev_toggle('L3', 0.25)], [ev_alter('P1', '+', 0.1, 0.0)], [ev_fault(0.0, 0.1)],
                       [ev_toggle('L3', 0.0), ev_toggle('L2', 0.1)], [ev_toggle('L3', 1.0)]):
                for (tstep, fixt) in ((0.1, 1), (1 / 30, 1), (0.1, 0)):
                    out.append(dict(sys=sysname, tf=1.0, tstep=tstep, fixt=fixt, events=ev, preinit=1, criteria=crit))
            # long horizon (> 10 s): one system, coarse step
            if sysname == 'static3':
                tf = 13.0
                for e in [ev_toggle('L3', 12.3), ev_toggle('L3', 13.0), ev_toggle('L3', 10.0),
                          ev_alter('P1', '+', 0.1, 12.3), ev_fault(12.3, 12.4), ev_toggle('L3', 13.5)]:
                    for (tstep, fixt) in ((0.1, 1), (0.5, 1)):
                        out.append(dict(sys=sysname, tf=tf, tstep=tstep, fixt=fixt, events=[e], criteria=crit))
        return out

    def execute(self, case):
        ss = self.sys[case['sys']]
        self.cp[case['sys']].restore()
        out = Outcome()
        log = dict(cb=[], state=[], slots=self.apply(ss, case['events']), custom=case.get('custom'))
        self.instrument(ss, log)
        log['init'] = dict(INIT, **self.snapshot(ss))
        try:
            rets = self.run_tds(ss, case, log)
        except Exception as e:   # a crash of the simulation loop on a legal schedule
            import traceback
            tb = traceback.extract_tb(e.__traceback__)
            where = tb[-1].name if tb else '?'
            out.bad(f'exception:{type(e).__name__}@{where}',
                    f'TDS.run raised {type(e).__name__}: {e}', at=float(ss.dae.t))
            out.obs = dict(exc=type(e).__name__, where=where, t=float(ss.dae.t))
            return out
        # faults on the tiny systems may legitimately make Newton fail: classify, do not demand success
        case = dict(case)
        case['may_fail'] = any(e['kind'] == 'fault' and e['u'] for e in case['events'])
        self.oracle(out, ss, case, log, rets)
        out.obs = dict(stamps=[float(x) for x in ss.dae.ts.t], cb=log['cb'], rets=rets,
                       final=self.snapshot(ss), t=float(ss.dae.t))
        out.nontrivial = bool(log['cb'])
        out.transitions = len(log['state'])
        return out


class Scripted(_Base):
    """Layer 2: scripted environment answers at the step seam."""
    name = 'script'
    sysnames = ('static3',)
    K = 10

    def describe(self, tier):
        k = 2 if tier == 'quick' else 3
        return (f'static3; step routine replaced by scripted answers; all scripts with <= {k} deviations '
                f'(reject / converged in 10 / converged in 20 iterations / persistent reject) from '
                f'"converged in 3" within the first {self.K} decision points and the 3 points after each event; '
                f'schedules: none, off-grid toggle, grid toggle, coincident pair, event at tf; fixt in {{1,0}}, '
                f'shrinkt in {{1,0}}')

    ANSW = [('fail',), ('ok', 10), ('ok', 20)]

    def cases(self, tier):
        kmax = 2 if tier == 'quick' else 3
        scheds = [[], [ev_toggle('L3', 0.25)], [ev_toggle('L3', 0.3)],
                  [ev_toggle('L3', 0.25), ev_alter('P1', '+', 0.1, 0.25)], [ev_toggle('L3', 0.5)],
                  [ev_toggle('L3', 0.1), ev_toggle('L2', 0.1001)]]
        out = []
        for ev in scheds:
            for (tstep, fixt, shrinkt, tf) in ((0.1, 1, 1, 0.5), (0.1, 0, 1, 0.5), (0.1, 1, 0, 0.5)):
                pts = list(range(self.K))
                base = dict(sys='static3', tf=tf, tstep=tstep, fixt=fixt, shrinkt=shrinkt, events=ev, criteria=1)
                out.append(dict(base, script=[]))
                for k in range(1, kmax + 1):
                    if shrinkt == 0 and k > 1:
                        continue
                    for where in itertools.combinations(pts, k):
                        for ans in itertools.product(range(len(self.ANSW)), repeat=k):
                            out.append(dict(base, script=[[p, a] for p, a in zip(where, ans)]))
                # persistent rejection starting at each point (step-size collapse)
                for p in pts:
                    out.append(dict(base, script=[[p, 'forever']]))
        return out

    def execute(self, case):
        ss = self.sys[case['sys']]
        self.cp[case['sys']].restore()
        out = Outcome()
        log = dict(cb=[], state=[], slots=self.apply(ss, case['events']))
        self.instrument(ss, log)
        log['init'] = dict(INIT, **self.snapshot(ss))
        tds = ss.TDS
        script = {}
        forever = None
        for p, a in case['script']:
            if a == 'forever':
                forever = p
            else:
                script[p] = self.ANSW[a]
        calls = dict(n=0, log=[])

        def scripted():
            k = calls['n']
            calls['n'] += 1
            if tds.h == 0:
                return False
            ans = script.get(k, ('ok', 3))
            if forever is not None and k >= forever:
                ans = ('fail',)
            okk = ans[0] == 'ok'
            tds.niter = ans[1] if okk else tds.config.max_iter + 1
            tds.converged = okk
            tds.last_converged = okk
            calls['log'].append((float(ss.dae.t), float(tds.h), okk))
            if calls['n'] > 5000:
                raise RuntimeError('runaway loop')
            return okk
        tds.itm_step = scripted
        try:
            rets = self.run_tds(ss, case, log)
        except Exception as e:
            import traceback
            tb = traceback.extract_tb(e.__traceback__)
            where = tb[-1].name if tb else '?'
            out.bad(f'exception:{type(e).__name__}@{where}', f'TDS.run raised {type(e).__name__}: {e}')
            out.obs = dict(exc=type(e).__name__, where=where)
            return out
        self.oracle(out, ss, case, log, rets, script_active=True)
        # environment-specific clauses
        collapse = forever is not None or (case['shrinkt'] == 0 and case['fixt'] == 1 and
                                           any(self.ANSW[a][0] == 'fail' for p, a in case['script']
                                               if a != 'forever' and p < calls['n']))
        if collapse and all(rets) and forever is not None and forever < calls['n'] - 0:
            out.bad('collapse_reported_success', 'every step rejected from a point on, yet run returned True')
        if not collapse and not all(rets):
            out.bad('run_failed_under_recoverable_rejections',
                    f'run returned {rets} although every rejection was followed by acceptance; '
                    f't={float(ss.dae.t)!r} err={tds.err_msg!r}')
        if not all(rets) and ss.exit_code == 0:
            out.bad('failure_exit_code_zero', 'run returned False but exit_code == 0')
        for (t, h, okk) in calls['log']:
            if h < 0:
                out.bad('negative_step', f'step size {h!r} at t={t!r}')
                break
        out.obs = dict(stamps=[float(x) for x in ss.dae.ts.t], cb=log['cb'], rets=rets, calls=calls['log'][:60])
        out.transitions = calls['n']
        out.nontrivial = bool(case['script'])
        return out


# ------------------------------------------------------------------ time-series updates

TS_LATTICE = [0.0, 0.1, 0.25, 0.3001, 1.0, 1.5, -0.5]


def _ts_dev(times, k, nf=1, u=1, dev='P1', order='asc'):
    """One TimeSeries device: rows at `times`, value of row i of device k is fixed by (i, k)."""
    rows = [dict(t=t, p=round(0.3 + 0.1 * i + 0.05 * k, 6), q=round(0.02 + 0.01 * i + 0.005 * k, 6))
            for i, t in enumerate(times)]
    if order == 'desc':
        rows = rows[::-1]
    return dict(rows=rows, nf=nf, u=u, dev=dev)


class TimeSeriesEvents(Part):
    """
    Time-series updates: the fourth event kind named by the property.  A fresh System per execution (the data
    files are read at set-up).  Alphabet: 1..2 TimeSeries devices x row-time sets from the lattice x one or two
    fields x enabled / disabled x row order in the file, optionally a coincident Toggle, optionally a resume split.
    """
    name = 'tseries'
    forked = False
    chunk = 4
    timeout = 120.0

    def describe(self, tier):
        return ('static3 + 1..2 TimeSeries devices (csv data written by the harness) driving PQ.Ppf / Qpf; row-time '
                'sets = all subsets of size <= 2%s of the lattice {0, 0.1, 0.25, 0.3001, tf, tf+0.5, -0.5}; one or two '
                'fields; enabled / disabled; rows ascending / descending in the file; two devices with all pairs of '
                'row-time sets of size 1..2 from {0.1, 0.25, tf} (equal and different row counts, same or different '
                'target); coincident / separate Toggle; resume splits at te-eps, te, te+eps; tstep in {0.1, 1/30}'
                % (' and 3' if tier == 'thorough' else ''))

    def cases(self, tier):
        out = []
        cfgs = [(0.1, 1), (1 / 30, 1)]
        kmax = 2 if tier == 'quick' else 3
        sets = []
        for k in range(1, kmax + 1):
            sets += [sorted(c) for c in itertools.combinations(TS_LATTICE, k)]
        for times in sets:
            for (tstep, fixt) in cfgs:
                for nf in (1, 2):
                    out.append(dict(tf=1.0, tstep=tstep, fixt=fixt, devs=[_ts_dev(times, 0, nf=nf)]))
                out.append(dict(tf=1.0, tstep=tstep, fixt=fixt, devs=[_ts_dev(times, 0, u=0)]))
            if len(times) > 1:
                out.append(dict(tf=1.0, tstep=0.1, fixt=1, devs=[_ts_dev(times, 0, order='desc')]))
        small = []
        for k in (1, 2):
            small += [sorted(c) for c in itertools.combinations([0.1, 0.25, 1.0], k)]
        for a in small:
            for b in small:
                for devb in ('P1', 'P2'):
                    out.append(dict(tf=1.0, tstep=0.1, fixt=1,
                                    devs=[_ts_dev(a, 0), _ts_dev(b, 1, dev=devb)]))
                out.append(dict(tf=1.0, tstep=0.1, fixt=1, devs=[_ts_dev(a, 0), _ts_dev(b, 1, dev='P2', u=0)]))
        # with a Toggle
        for times in ([0.25], [0.1, 0.25]):
            for tt in (0.25, 0.3, 0.0):
                out.append(dict(tf=1.0, tstep=0.1, fixt=1, devs=[_ts_dev(times, 0, nf=2)], toggle=['L3', tt]))
        # resume
        for times in ([0.25], [0.25, 0.5], [0.0, 0.25]):
            for s in (0.1, 0.25 - EPS, 0.25, 0.25 + EPS, 0.4):
                out.append(dict(tf=1.0, tstep=0.1, fixt=1, devs=[_ts_dev(times, 0)], splits=[s]))
        # long horizon
        out.append(dict(tf=13.0, tstep=0.5, fixt=1, devs=[_ts_dev([10.0, 12.3], 0)]))
        return out

    def execute(self, case):
        import os
        import tempfile
        import pandas as pd
        out = Outcome()
        tmp = tempfile.mkdtemp(prefix='c06ts-')
        tf = case['tf']
        try:
            ss = systems.static3(setup=False)
            for k, d in enumerate(case['devs']):
                path = os.path.join(tmp, f'ts{k}.csv')
                pd.DataFrame(d['rows']).to_csv(path, index=False)
                ss.add('TimeSeries', dict(idx=f'TS{k}', path=path, sheet='x', tkey='t', model='PQ', dev=d['dev'],
                                          u=d['u'], fields='p,q' if d['nf'] == 2 else 'p',
                                          dests='Ppf,Qpf' if d['nf'] == 2 else 'Ppf'))
            if case.get('toggle'):
                ss.add('Toggle', dict(idx='T0', model='Line', dev=case['toggle'][0], t=case['toggle'][1]))
            ss.setup()
            if not ss.PFlow.run():
                out.bad('pflow_failed', 'power flow of the benign base system failed')
                return out
            init = {('P1', 'Ppf'): float(ss.PQ.Ppf.v[0]), ('P2', 'Ppf'): float(ss.PQ.Ppf.v[1]),
                    ('P1', 'Qpf'): float(ss.PQ.Qpf.v[0]), ('P2', 'Qpf'): float(ss.PQ.Qpf.v[1])}
            sets, states, toggles = [], [], []
            orig_set = ss.PQ.set

            def pq_set(src, idx, attr, value):
                sets.append((float(ss.dae.t), src, idx, float(value)))
                return orig_set(src, idx, attr, value)
            ss.PQ.set = pq_set
            if case.get('toggle'):
                cb0 = ss.Toggle.t.callback

                def cb(is_time):
                    if np.any(is_time):
                        toggles.append(float(ss.dae.t))
                    return cb0(is_time)
                ss.Toggle.t.callback = cb

            def snap():
                return {('P1', 'Ppf'): float(ss.PQ.Ppf.v[0]), ('P2', 'Ppf'): float(ss.PQ.Ppf.v[1]),
                        ('P1', 'Qpf'): float(ss.PQ.Qpf.v[0]), ('P2', 'Qpf'): float(ss.PQ.Qpf.v[1])}
            ss.TDS.callpert = lambda t, system: states.append((float(t), snap()))
            c = ss.TDS.config
            c.tstep, c.fixt, c.criteria, c.no_tqdm = case['tstep'], case['fixt'], 0, 1
            rets = []
            try:
                for seg in list(case.get('splits', [])) + [tf]:
                    c.tf = seg
                    rets.append(bool(ss.TDS.run(no_summary=True)))
            except Exception as e:
                import traceback
                tb = traceback.extract_tb(e.__traceback__)
                where = tb[-1].name if tb else '?'
                out.bad(f'exception:{type(e).__name__}@{where}', f'TDS.run raised {type(e).__name__}: {e}')
                out.obs = dict(exc=type(e).__name__, where=where)
                return out
            stamps = [float(x) for x in ss.dae.ts.t]
            # ---- reference: rows that must be applied, per (device, field)
            due = []      # (t, target key, value, k)
            for k, d in enumerate(case['devs']):
                if not d['u']:
                    continue
                for r in d['rows']:
                    if 0.0 <= r['t'] <= tf:
                        due.append((r['t'], (d['dev'], 'Ppf'), r['p'], k))
                        if d['nf'] == 2:
                            due.append((r['t'], (d['dev'], 'Qpf'), r['q'], k))
            amb = set()
            seen_at = {}
            for t, key, val, k in due:
                if (t, key) in seen_at and seen_at[(t, key)] != val:
                    amb.add(key)
                seen_at[(t, key)] = val

            def fold(upto, strict):
                st = dict(init)
                for t, key, val, k in sorted(due, key=lambda x: x[0]):
                    if (t < upto) if strict else (t <= upto):
                        st[key] = val
                return st
            if not all(rets):
                out.bad('run_failed', f'run returned {rets} on a benign schedule; err={ss.TDS.err_msg!r}')
            # 1. every due row applied at exactly its time, nothing applied at another time or by a disabled device
            for t, key, val, k in due:
                hits = [s for s in sets if s[1] == key[1] and s[2] == key[0] and s[3] == val]
                if not hits:
                    out.bad('row_not_applied:' + ('t0' if t == 0.0 else 'tf' if t == tf else 'interior'),
                            f'time-series row t={t!r} {key} = {val} was never applied')
                for h in hits:
                    if h[0] != t:
                        out.bad('row_applied_at_wrong_time', f'row t={t!r} {key} applied at {h[0]!r}')
            legal = {(key[1], key[0], val) for t, key, val, k in due}
            for (ts, src, idx, val) in sets:
                if (src, idx, val) not in legal:
                    out.bad('row_applied_that_is_not_due', f'{src} of {idx} set to {val} at t={ts!r}: no enabled row '
                            f'inside [t0, tf] says so')
                    break
            # 2. value seen while integrating towards t_k = fold of the rows strictly before t_k
            for tk, st in states:
                if tk <= 0.0:
                    continue
                exp = fold(tk, True)
                badk = [key for key in exp if key not in amb and abs(st[key] - exp[key]) > 1e-12]
                if badk:
                    out.bad('effect_mismatch', f'while stepping to t={tk!r}: {badk[0]} = {st[badk[0]]!r}, '
                            f'the data say {exp[badk[0]]!r}')
                    break
            if all(rets):
                fin, exp = snap(), fold(tf, False)
                for key in exp:
                    if key not in amb and abs(fin[key] - exp[key]) > 1e-12:
                        out.bad('final_effect_mismatch', f'after the run {key} = {fin[key]!r}, the data say {exp[key]!r}')
            # 3. time grid
            for a, b in zip(stamps, stamps[1:]):
                if not b > a:
                    out.bad('stamps_not_increasing', f'stored stamps {a!r} -> {b!r}')
                    break
            horizon = tf if all(rets) else (stamps[-1] if stamps else -1.0)
            for te in sorted({t for t, key, val, k in due if 0.0 < t <= horizon}):
                if te not in stamps:
                    out.bad('no_step_ends_at_row_time', f'no stored step ends at the row time {te!r}')
                if any(a < te < b for a, b in zip(stamps, stamps[1:])):
                    out.bad('step_crosses_row_time', f'a step crosses the row time {te!r}')
            if all(rets) and (float(ss.dae.t) != tf or not stamps or stamps[-1] != tf):
                out.bad('success_but_not_at_tf', f'run returned True with dae.t={float(ss.dae.t)!r}')
            if case.get('toggle'):
                tt = case['toggle'][1]
                if toggles != [tt]:
                    out.bad('toggle_dispatch_wrong_with_timeseries', f'Toggle at {tt!r} dispatched at {toggles}')
            out.obs = dict(stamps=stamps, sets=sets, rets=rets, final=[list(map(str, k)) + [v] for k, v in sorted(snap().items())])
            out.nontrivial = bool(sets)
            out.transitions = len(states)
            return out
        finally:
            import shutil
            shutil.rmtree(tmp, ignore_errors=True)


def parts(tier):
    return [RealSteps(), Scripted(), TimeSeriesEvents()]


def run(run, only=None):
    for p in parts(run.tier):
        if only and p.name != only:
            continue
        run.run_part(p)
    run.assumptions += [
        'events closer than 2*eps (1e-4) but not coincident are outside the alphabet, except the pair (0.1, 0.1001)',
        'coincident non-commuting alterations of one field: either order accepted',
        'fault events on the tiny systems may make Newton fail; then only the clauses up to the last stored step apply',
    ]
    rule = ('bounded exhaustive enumeration of event schedules (multisets from alphabet x time lattice) x step '
            'configurations x resume splits on the real TDS loop, plus all scripted convergence patterns with a '
            'bounded number of deviations; non-trivial = at least one event dispatched / one deviation; '
            'distinct = distinct observation digest (stamps, dispatch log, final state)')
    return run.finish(rule)
