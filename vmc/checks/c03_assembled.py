"""
C03 part 'assembled': the system matrices handed to the solvers against finite differences of the assembled residual.
"""

import itertools

import numpy as np

from vmc.core import Outcome, Part

CASES = ['smib/SMIB.json', 'kundur/kundur_full.xlsx', 'kundur/kundur_aw.xlsx', 'ieee14/ieee14_full.xlsx',
         'ieee14/ieee14_exac1.xlsx', 'ieee14/ieee14_pvd1.xlsx', 'ieee14/ieee14_esst3a.xlsx', 'wscc9/wscc9.xlsx',
         'ieee14/ieee14_wt3.xlsx', '5bus/pjm5bus.xlsx']


def dense(M):
    from andes.shared import matrix
    return np.array(matrix(M))


def pattern(M):
    return set(zip((int(i) for i in M.I), (int(j) for j in M.J)))


class Assembled(Part):
    name = 'assembled'
    chunk = 1
    timeout = 900.0
    nproc = 8

    def __init__(self, tier='quick'):
        self.tier = tier

    def describe(self, tier):
        k = 1 if tier == 'quick' else 2
        return (f'{len(CASES)} stock systems x status in (all on, every one of the first 6 lines / 3 loads / 3 static generators '
                f'off{"" if k == 1 else ", pairs of lines off"}, leaf-bus isolation) x ipadd in (1, 0) x phases (power flow: flat start, '
                f'solution, perturbed; dynamics: initial point, perturbed, and - on the all-on systems - once more after every '
                f'continuous parameter read by a Jacobian function of a dynamic model has been changed in place and the first device '
                f'of every dynamic model switched off)')

    def cases(self, tier):
        out = []
        for c in CASES:
            sts = [None] + [['Line', k] for k in range(6)] + [['PQ', k] for k in range(3)] + [['PV', k] for k in range(3)]
            sts.append(['isolate', 0])
            if tier != 'quick':
                sts += [['Line2', a, b] for a, b in itertools.combinations(range(5), 2)]
            for st in sts:
                for ipadd in (1, 0):
                    if tier == 'quick' and ipadd == 0 and st is not None and st[0] not in ('Line', 'isolate'):
                        continue
                    out.append(dict(case=c, status=st, ipadd=ipadd))
        return out

    def execute(self, case):
        from vmc import systems
        out = Outcome()
        ss = systems.load_case(case['case'], setup=False)
        st = case['status']
        try:
            if st is not None:
                kind = st[0]
                if kind in ('Line', 'PQ', 'PV'):
                    mdl = getattr(ss, kind)
                    if st[1] >= mdl.n:
                        out.obs = dict(skipped='no such device')
                        out.nontrivial = False
                        return out
                    mdl.u.v[st[1]] = 0
                elif kind == 'Line2':
                    for k in st[1:]:
                        if k < ss.Line.n:
                            ss.Line.u.v[k] = 0
                elif kind == 'isolate':
                    # switch off every line of the bus with the fewest lines that carries no generator
                    gens = set(ss.PV.bus.v) | set(ss.Slack.bus.v)
                    deg = {}
                    for k in range(ss.Line.n):
                        for b in (ss.Line.bus1.v[k], ss.Line.bus2.v[k]):
                            deg.setdefault(b, []).append(k)
                    cand = sorted((len(v), str(b), b) for b, v in deg.items() if b not in gens)
                    if not cand:
                        out.obs = dict(skipped='no load-only bus')
                        out.nontrivial = False
                        return out
                    for k in deg[cand[0][2]]:
                        ss.Line.u.v[k] = 0
            ss.config.ipadd = case['ipadd']
            ss.setup()
            systems.quiet_tds(ss)
        except Exception as e:
            out.bad(f'setup_raises:{type(e).__name__}', f'{type(e).__name__}: {e}')
            out.obs = dict(exc=type(e).__name__)
            return out
        seen = set()

        def bad(sig, msg):
            if sig not in seen:
                seen.add(sig)
                out.bad(sig, msg)
        stats = dict(points=0, entries=0, skipped_rows=0)
        rng = np.random.RandomState(5)
        try:
            # ---------------- power-flow phase
            ss.PFlow.init()
            pf = ss.PFlow
            models = pf.models
            self.point(ss, pf, models, 'pflow:flat', bad, stats)
            ok = pf.run()
            if ok:
                self.point(ss, pf, models, 'pflow:solution', bad, stats)
                xy = np.concatenate([ss.dae.x, ss.dae.y])
                pf._fg_wrapper(xy + 0.01 * rng.uniform(-1, 1, len(xy)))
                self.point(ss, pf, models, 'pflow:perturbed', bad, stats)
                pf._fg_wrapper(xy)
                ss.dae.x[:] = pf.x_sol
                ss.dae.y[:] = pf.y_sol
                ss.vars_to_models()
                # ---------------- dynamic phase
                if len(ss.exist.tds) > 0:
                    ss.TDS.init()
                    tds = ss.TDS
                    tm = ss.exist.pflow_tds
                    self.point(ss, tds, tm, 'tds:initial', bad, stats)
                    xy = np.concatenate([ss.dae.x, ss.dae.y])
                    tds._fg_wrapper(xy + 1e-3 * rng.uniform(-1, 1, len(xy)))
                    self.point(ss, tds, tm, 'tds:perturbed', bad, stats)
                    if case['status'] is None:
                        # parameters and status changed IN PLACE after the matrices have been evaluated (what Model.set / alter,
                        # Toggle and the connectivity manager do): the next update must see the new values everywhere
                        changed = self.inplace_change(ss)
                        tds._fg_wrapper(xy + 1e-3 * rng.uniform(-1, 1, len(xy)))
                        self.point(ss, tds, tm, 'tds:after_inplace_change', bad, stats)
                        stats['changed_params'] = changed
        except Exception as e:
            import traceback
            tb = traceback.extract_tb(e.__traceback__)
            bad(f'raises:{type(e).__name__}@{tb[-1].name if tb else "?"}', f'{type(e).__name__}: {e}')
        out.obs = dict(case=case['case'], **stats)
        out.transitions = stats['points']
        out.nontrivial = stats['entries'] > 0
        return out

    @staticmethod
    def inplace_change(ss):
        """Scale every continuous parameter that a Jacobian function of a dynamic model reads, and switch the first device
        of every dynamic model off through the public setter. Returns the number of parameters changed."""
        count = 0
        for mdl in ss.exist.tds.values():
            if mdl.n == 0 or mdl.flags.pflow:
                continue
            jargs = set()
            for args in mdl.calls.j_args.values():
                jargs.update(args)
            selectors = set()
            for d in mdl.discrete.values():
                if type(d).__name__ in ('Switcher', 'Selector') and hasattr(d, 'u'):
                    selectors.add(getattr(d.u, 'name', None))
            for name, p in mdl.num_params.items():
                if name == 'u' or name in selectors or name not in jargs:
                    continue
                v = np.asarray(p.v, dtype=float)
                if v.shape != (mdl.n,):
                    continue
                p.v[:] = v * 1.07 + 0.013
                count += 1
            if 'u' in mdl.num_params:
                mdl.set('u', mdl.idx.v[0], 'v', 0)
        return count

    def point(self, ss, routine, models, label, bad, stats):
        """Compare the assembled Jacobian at the current point with finite differences of the assembled residual."""
        dae = ss.dae
        n, m = dae.n, dae.m
        xy0 = np.concatenate([dae.x, dae.y]).copy()
        routine._fg_wrapper(xy0)
        f0 = np.array(dae.fg).copy()
        ss.j_update(models)
        blocks = {'fx': dae.fx, 'fy': dae.fy, 'gx': dae.gx, 'gy': dae.gy}
        J = np.zeros((n + m, n + m))
        pats = {}
        for name, M in blocks.items():
            if M.size[0] == 0 or M.size[1] == 0:
                continue
            r0 = 0 if name[0] == 'f' else n
            c0 = 0 if name[1] == 'x' else n
            J[r0:r0 + M.size[0], c0:c0 + M.size[1]] = dense(M)
            pats[name] = (pattern(M), r0, c0)
        # pattern must not change between updates
        ss.j_update(models)
        for name, M in (('fx', dae.fx), ('fy', dae.fy), ('gx', dae.gx), ('gy', dae.gy)):
            if name in pats and pattern(M) != pats[name][0]:
                bad(f'pattern_changed_between_updates:{name}', f'{label}: sparsity pattern of {name} differs between two updates')
        # in-place and rebuilt accumulation must give the same matrices
        other = 0 if ss.config.ipadd else 1
        keep = ss.config.ipadd
        ss.config.ipadd = other
        try:
            ss.j_update(models)
            J2 = np.zeros_like(J)
            for name, M in (('fx', dae.fx), ('fy', dae.fy), ('gx', dae.gx), ('gy', dae.gy)):
                if M.size[0] == 0 or M.size[1] == 0:
                    continue
                r0 = 0 if name[0] == 'f' else n
                c0 = 0 if name[1] == 'x' else n
                J2[r0:r0 + M.size[0], c0:c0 + M.size[1]] = dense(M)
        finally:
            ss.config.ipadd = keep
            ss.j_update(models)
        # rows that are not closed-form in the variables
        skip = set()
        # isolated buses: their residual rows are overwritten with zero (neutralised), not closed-form
        if ss.Bus.n_islanded_buses:
            skip |= {int(k) + n for k in np.atleast_1d(ss.Bus.islanded_a)} | {int(k) + n for k in np.atleast_1d(ss.Bus.islanded_v)}
        islanded_rows = set(skip)
        for aw in ss.antiwindups:
            for key, _, _ in getattr(aw, 'x_set', []):
                skip |= {int(k) for k in np.atleast_1d(key)}
        for mdl in models.values():
            if mdl.n == 0:
                continue
            has_vs = len(mdl.services_var) > 0 or mdl.flags.f_num or mdl.flags.g_num or mdl.flags.j_num
            if has_vs:
                for var in mdl.cache.all_vars.values():
                    a = np.atleast_1d(getattr(var, 'a', []))
                    if var.e_str is None and not mdl.flags.f_num and not mdl.flags.g_num:
                        continue
                    off = n if var.e_code == 'g' else 0
                    # external variables write into the equation of the variable they point to
                    skip |= {int(k) + off for k in a}
        stats['skipped_rows'] += len(skip)
        h = 1e-6
        FDp = np.zeros_like(J)
        FDm = np.zeros_like(J)
        for k in range(n + m):
            d = np.zeros(n + m)
            d[k] = h * max(1.0, abs(xy0[k]))
            fp = np.array(routine._fg_wrapper(xy0 + d)).copy()
            fm = np.array(routine._fg_wrapper(xy0 - d)).copy()
            FDp[:, k] = (fp - f0) / d[k]
            FDm[:, k] = (f0 - fm) / d[k]
        routine._fg_wrapper(xy0)
        FD = 0.5 * (FDp + FDm)
        stats['points'] += 1
        rows = [r for r in range(n + m) if r not in skip]
        tol = 2e-4
        live = list(range(n + m))      # every row, islanded buses included: both accumulation modes must build the same matrix
        if live and np.max(np.abs(J[live] - J2[live])) > 1e-10 * (1.0 + np.max(np.abs(J[live]))):
            r, c = np.unravel_index(np.argmax(np.abs(J[live] - J2[live])), J[live].shape)
            bad('ipadd_modes_differ', f'{label}: in-place and rebuilt accumulation differ by {np.max(np.abs(J[live] - J2[live])):.3e} '
                f'at d({dae.xy_name[live[r]]})/d({dae.xy_name[c]})')
        for r in rows:
            diff = np.abs(J[r] - FD[r])
            lim = tol * (1.0 + np.abs(J[r]) + np.abs(FD[r]))
            badc = np.flatnonzero(diff > lim)
            for c in badc:
                # at a limiter kink the stored entry must equal one of the one-sided derivatives
                one_sided = min(abs(J[r, c] - FDp[r, c]), abs(J[r, c] - FDm[r, c]))
                if one_sided <= tol * (1.0 + abs(J[r, c])) and abs(FDp[r, c] - FDm[r, c]) > tol:
                    continue
                rn = dae.xy_name[r] if r < len(dae.xy_name) else r
                cn = dae.xy_name[c] if c < len(dae.xy_name) else c
                bname = ('f' if r < n else 'g') + ('x' if c < n else 'y')
                missing = abs(J[r, c]) == 0
                bad(f'assembled_entry_{"missing" if missing else "wrong"}:{bname}:{_mdl(rn)}/{_mdl(cn)}',
                    f'{label}: d({rn})/d({cn}) stored {J[r, c]:.6g}, finite difference {FD[r, c]:.6g} '
                    f'(one-sided {FDp[r, c]:.6g} / {FDm[r, c]:.6g})')
                break
            stats['entries'] += int(np.count_nonzero(J[r]))
        # structural non-zeros of the finite differences must lie inside the stored pattern
        for name, (pat, r0, c0) in pats.items():
            M = blocks[name]
            sub = FD[r0:r0 + M.size[0], c0:c0 + M.size[1]]
            nzr, nzc = np.nonzero(np.abs(sub) > 1e-5)
            for r, c in zip(nzr, nzc):
                if (r + r0) in skip:
                    continue
                if (int(r), int(c)) not in pat:
                    rn = dae.xy_name[r + r0]
                    cn = dae.xy_name[c + c0]
                    bad(f'nonzero_outside_pattern:{name}:{_mdl(rn)}/{_mdl(cn)}', f'{label}: d({rn})/d({cn}) = {sub[r, c]:.4g} by finite '
                        f'differences but ({r},{c}) is not in the stored pattern of {name}')
                    break


def _mdl(name):
    parts = str(name).split(' ')
    return parts[1] if len(parts) > 1 else str(name)


class Newton(Part):
    """
    The matrices actually *handed to the Newton solvers* (``Solver.solve`` / ``linsolve`` of the power-flow and the
    time-domain routine are wrapped): every one must be the derivative of the residual vector handed over with it.
    The residual of an implicit step is  T (x - x0) - h c (f + ...)  with c = 1/2 (trapezoid) or 1 (backward Euler),
    the algebraic rows are g, scaled by g_scale h when g_scale > 0; hence the matrix must be
    [[T - h c fx, -h c fy], [s gx, s gy]] of the current dae.fx .. gy (which part 'assembled' ties to finite
    differences of the residual functions).  Power flow: [[fx, fy], [gx, gy]].
    """
    name = 'newton'
    chunk = 2
    timeout = 600.0

    SYS = ['kundur/kundur_full.xlsx', 'ieee14/ieee14_full.xlsx', 'smib/SMIB.json']

    def __init__(self, tier='quick'):
        self.tier = tier

    def describe(self, tier):
        return (f'{self.SYS if tier != "quick" else self.SYS[:2]}: every matrix passed to the sparse solver by PFlow.run and by a 0.3 s '
                f'TDS.run (line trip at 0.1 s, so the step size changes) for the full product method in (trapezoid, backeuler) x '
                f'g_scale in (0, 1, 0.5) x honest in (0, 1) x linsolve in (0, 1) x tstep in (1/30, 0.01) x fixt in (1, 0)')

    def cases(self, tier):
        out = []
        for c in (self.SYS if tier != 'quick' else self.SYS[:2]):
            for method, gs, honest, lin, tstep, fixt in itertools.product(('trapezoid', 'backeuler'), (0, 1, 0.5), (0, 1), (0, 1),
                                                                          (1 / 30, 0.01), (1, 0)):
                if tier == 'quick' and fixt == 0 and (lin == 1 or tstep != 1 / 30):
                    continue
                out.append(dict(case=c, method=method, g_scale=gs, honest=honest, linsolve=lin, tstep=tstep, fixt=fixt))
        return out

    def execute(self, case):
        from vmc import systems
        out = Outcome()
        ss = systems.load_case(case['case'], setup=False)
        if ss.Toggle.n:
            ss.Toggle.u.v[:] = [0] * ss.Toggle.n
        if hasattr(ss, 'Fault') and ss.Fault.n:
            ss.Fault.u.v[:] = [0] * ss.Fault.n
        ss.add('Toggle', dict(idx='TNEWTON', model='Line', dev=ss.Line.idx.v[min(7, ss.Line.n - 1)], t=0.1))
        ss.setup()
        systems.quiet_tds(ss)
        dae = ss.dae
        seen = set()
        stat = dict(pflow=0, tds=0, worst=0.0)

        def bad(sig, msg):
            if sig not in seen:
                seen.add(sig)
                out.bad(sig, msg)

        def compare(A, exp, where):
            A = dense(A)
            if A.shape != exp.shape:
                bad(f'newton_matrix_shape:{where}', f'{where}: matrix handed to the solver is {A.shape}, residual has {exp.shape}')
                return
            scale = np.maximum(1.0, np.abs(exp))
            d = np.abs(A - exp) / scale
            w = float(d.max()) if d.size else 0.0
            stat['worst'] = max(stat['worst'], w)
            if w > 1e-9:
                i, j = np.unravel_index(int(np.argmax(d)), d.shape)
                names = list(dae.x_name) + list(dae.y_name)
                blk = ('differential' if i < dae.n else 'algebraic') + '_rows'
                bad(f'newton_matrix_is_not_the_residual_derivative:{where}:{blk}',
                    f'{where} (t = {float(dae.t)!r}, h = {float(ss.TDS.h)!r}): entry d({names[i]})/d({names[j]}) handed to the solver is '
                    f'{A[i, j]!r}, the derivative of the residual is {exp[i, j]!r}')

        # ---- power flow
        pf = ss.PFlow
        pf.config.linsolve = case['linsolve']

        def wrap(solver, where, expected):
            for meth in ('solve', 'linsolve'):
                orig = getattr(solver, meth)

                def call(A, b, _orig=orig):
                    stat[where] += 1
                    compare(A, expected(), where)
                    return _orig(A, b)
                setattr(solver, meth, call)

        def exp_pflow():
            return np.block([[dense(dae.fx), dense(dae.fy)], [dense(dae.gx), dense(dae.gy)]]) if dae.n else dense(dae.gy)
        wrap(pf.solver, 'pflow', exp_pflow)
        if not pf.run():
            out.obs = dict(skip='power flow failed')
            return out
        # ---- time domain
        tds = ss.TDS
        c = tds.config
        c.method = case['method']
        tds.set_method(case['method'])
        c.g_scale, c.honest, c.linsolve, c.tstep, c.fixt = case['g_scale'], case['honest'], case['linsolve'], case['tstep'], case['fixt']
        c.tf, c.criteria = 0.3, 0
        coef = 0.5 if case['method'] == 'trapezoid' else 1.0

        def exp_tds():
            h = float(tds.h)
            T = np.diag(np.array(dae.Tf, dtype=float))
            s = case['g_scale'] * h if case['g_scale'] > 0 else 1.0
            return np.block([[T - h * coef * dense(dae.fx), -h * coef * dense(dae.fy)],
                             [s * dense(dae.gx), s * dense(dae.gy)]])
        wrap(tds.solver, 'tds', exp_tds)
        try:
            ok = tds.run(no_summary=True)
        except Exception as e:
            import traceback
            tb = traceback.extract_tb(e.__traceback__)
            bad(f'raises:{type(e).__name__}@{tb[-1].name if tb else "?"}', f'{type(e).__name__}: {e}')
            ok = None
        if ok is False:
            bad('run_failed', f'TDS.run returned False at t = {float(dae.t)!r}: {tds.err_msg!r}')
        out.obs = dict(pflow_solves=stat['pflow'], tds_solves=stat['tds'], worst=float(f'{stat["worst"]:.1e}'))
        out.transitions = stat['pflow'] + stat['tds']
        out.nontrivial = stat['tds'] > 5
        return out
