"""
C03 - Jacobians are the exact residual derivatives, stored at the right addresses.

symbolic  : every shipped model: every generated Jacobian element (and every iterative-initialisation Jacobian) is
            compared, on the C02 lattice, with a Richardson central difference of the independently evaluated equation
            string w.r.t. the column variable (never across a breakpoint: points where any guard changes inside the
            stencil are dropped); completeness: every (equation, variable) pair NOT in the triplet list must have zero
            reference derivative on the whole lattice.
assembled : loaded systems x operating points (flat, power-flow solution, dynamic initial point, perturbed points) x
            connection status (every single device off / pairs in thorough, islanding patterns) x ipadd in {1, 0} x both
            addressing phases: finite differences of the assembled residual vs dae.fx/fy/gx/gy entry-wise, structural
            non-zeros inside the stored pattern, pattern identical across updates, ipadd=0 equals ipadd=1.
"""

import itertools

import numpy as np

from vmc.core import Outcome, Part
from vmc.modelharness import ModelDriver


def num_deriv(drv, expr, var, h0=1e-4):
    """Richardson central difference of ref(expr) w.r.t. input `var` at every lattice point.
    Returns (D, valid) where valid masks points with stable guards and finite values."""
    x = drv.vals[var]
    n = drv.N
    h = h0 * np.maximum(1.0, np.abs(x))
    outs = {}
    guards = {}
    for key, step in (('p1', h), ('m1', -h), ('p2', h / 2), ('m2', -h / 2), ('c', 0 * h)):
        vals = dict(drv.vals)
        vals[var] = x + step
        outs[key] = drv.ev(expr, vals, n)
        guards[key] = [np.broadcast_to(np.asarray(g, dtype=bool), (n,)).copy() for g in drv.ev.guards]
    d1 = (outs['p1'] - outs['m1']) / (2 * h)
    d2 = (outs['p2'] - outs['m2']) / h
    D = (4 * d2 - d1) / 3
    valid = np.isfinite(D) & np.isfinite(outs['c'])
    for key in ('p1', 'm1', 'p2', 'm2'):
        if len(guards[key]) != len(guards['c']):
            valid &= False
            break
        for ga, gc in zip(guards[key], guards['c']):
            valid &= (ga == gc)
    # abs() kinks: reject points whose stencil straddles zero of any |.| argument is not visible here; use
    # agreement of the two step sizes as a smoothness test instead
    with np.errstate(all='ignore'):
        smooth = np.abs(d1 - d2) <= 1e-4 * (1.0 + np.abs(d1) + np.abs(d2))
    valid &= smooth
    # round-off of the difference quotient (matters for equations with 1e8-sized terms)
    mag = np.maximum.reduce([np.abs(outs[k]) for k in ('p1', 'm1', 'p2', 'm2')])
    noise = 16 * 2.3e-16 * mag / h
    num_deriv.noise = noise
    return D, valid


class Symbolic(Part):
    name = 'symbolic'
    chunk = 1
    timeout = 1500.0

    def __init__(self, tier='quick'):
        self.tier = tier

    def describe(self, tier):
        return ('every shipped model x every generated Jacobian element and iterative-init Jacobian x lattice (%d generic '
                'points x covering design, pairs when <= %d); completeness of the triplet list' %
                ((2, 200) if tier == 'quick' else (4, 1500)))

    def cases(self, tier):
        from vmc.checks.c02 import model_names
        return model_names()

    def init_worker(self):
        import andes
        self.ss = andes.System(no_output=True, default_config=True)

    def execute(self, case):
        out = Outcome()
        mdl = self.ss.models[case]
        calls = mdl.calls
        G, mp = (2, 200) if self.tier == 'quick' else (4, 1500)
        drv = ModelDriver(mdl, G=G, salt=1, max_pairs=mp)
        seen = set()

        def bad(sig, msg):
            if sig not in seen:
                seen.add(sig)
                out.bad(sig, msg)
        allv = list(mdl.cache.all_vars_names) if hasattr(mdl.cache, 'all_vars_names') else list(mdl.cache.all_vars.keys())
        eqs = {'f': list(mdl.cache.states_and_ext.items()), 'g': list(mdl.cache.algebs_and_ext.items())}
        listed = set()
        nent = 0
        ncmp = 0
        dcache = {}

        def deriv(eq_name, e_str, var):
            key = (eq_name, var)
            if key not in dcache:
                D, valid = num_deriv(drv, e_str, var)
                dcache[key] = (D, valid, num_deriv.noise)
            return dcache[key]
        for jname in calls.j_names:
            func = calls.j.get(jname)
            if not callable(func):
                continue
            try:
                ret = func(*[drv.vals[a] for a in calls.j_args[jname]])
            except Exception as e:
                bad(f'jacobian_call_raises:{case}.{jname}', f'{case}.{jname}_update raised {type(e).__name__}: {e}')
                continue
            rows, cols = calls.ijac[jname], calls.jjac[jname]
            if len(ret) != len(rows):
                bad(f'jacobian_length:{case}.{jname}', f'{case}.{jname}_update returns {len(ret)} values for {len(rows)} triplets')
                continue
            for k, (ei, vi) in enumerate(zip(rows, cols)):
                eq_name, eq_var = eqs[jname[0]][ei]
                var = allv[vi]
                listed.add((eq_name, var))
                nent += 1
                # the matrix name must match the kinds of row and column
                col_code = mdl.cache.all_vars[var].v_code
                if jname != f'{eq_var.e_code}{col_code}':
                    bad(f'jacobian_in_wrong_matrix:{case}', f'{case}: d{eq_name}/d{var} stored in {jname}')
                if eq_var.e_str is None:
                    continue
                D, valid, noise = deriv(eq_name, eq_var.e_str, var)
                got = np.broadcast_to(np.asarray(ret[k], dtype=float), (drv.N,))
                with np.errstate(all='ignore'):
                    err = np.abs(got - D)
                    okm = err <= 2e-6 * (1.0 + np.abs(D) + np.abs(got)) + noise
                badpts = valid & ~okm
                ncmp += int(valid.sum())
                if badpts.any():
                    p = int(np.flatnonzero(badpts)[0])
                    bad(f'jacobian_entry_wrong:{case}.d{eq_name}/d{var}', f'{case}: generated d({eq_name})/d({var}) = {got[p]!r}, '
                        f'numerical derivative of the declared equation = {D[p]!r}; e_str = {eq_var.e_str!r}')
        # completeness
        nzero = 0
        for code in ('f', 'g'):
            for eq_name, eq_var in eqs[code]:
                if eq_var.e_str is None or not isinstance(eq_var.e_str, str):
                    continue
                for var in allv:
                    if (eq_name, var) in listed or var not in eq_var.e_str:
                        continue          # a name that does not occur textually cannot contribute
                    D, valid, noise = deriv(eq_name, eq_var.e_str, var)
                    nzero += 1
                    if np.any(valid & (np.abs(D) > 1e-7 + noise)):
                        p = int(np.flatnonzero(valid & (np.abs(D) > 1e-7 + noise))[0])
                        bad(f'jacobian_entry_missing:{case}.d{eq_name}/d{var}', f'{case}: d({eq_name})/d({var}) = {D[p]!r} is '
                            f'non-zero but the pair is not in the triplet list')
        # iterative initialisation Jacobians
        for item in calls.init_seq:
            if not isinstance(item, list):
                continue
            key = '_'.join(item)
            func = calls.ij.get(key)
            if not callable(func):
                continue
            k = len(item)
            # the iterative initialiser calls this function device by device with scalar arguments
            npts = min(drv.N, 24)
            ret = np.full((k, k, drv.N), np.nan)
            try:
                for pnt in range(npts):
                    raw = np.asarray(func(*[np.asarray(drv.vals[a])[pnt] for a in calls.ij_args[key]]), dtype=float)
                    ret[:, :, pnt] = raw.reshape(k, k)
            except Exception as e:
                bad(f'init_jacobian_raises:{case}.{key}', f'{type(e).__name__}: {e}')
                continue
            for i, vi in enumerate(item):
                e = mdl.cache.all_vars[vi].v_iter
                for j, vj in enumerate(item):
                    D, valid = num_deriv(drv, e, vj)
                    got = ret[i, j]
                    valid = valid & np.isfinite(got)
                    with np.errstate(all='ignore'):
                        okm = np.abs(got - D) <= 2e-6 * (1.0 + np.abs(D) + np.abs(got)) + num_deriv.noise
                    if np.any(valid & ~okm):
                        p = int(np.flatnonzero(valid & ~okm)[0])
                        bad(f'init_jacobian_wrong:{case}.{vi}/{vj}', f'{case}: init Jacobian d({vi})/d({vj}) = {got[p]!r} vs {D[p]!r}')
        out.obs = dict(model=case, entries=nent, compared_points=ncmp, zero_pairs_checked=nzero, points=drv.N)
        out.transitions = max(1, nent)
        out.nontrivial = nent > 0
        return out


def parts(tier):
    from vmc.checks.c03_assembled import Assembled, Newton
    return [Symbolic(tier), Assembled(tier), Newton(tier)]


def run(run, only=None):
    for p in parts(run.tier):
        if only and p.name != only:
            continue
        run.run_part(p, audit=2)
    run.assumptions += ['reference derivative = Richardson central difference (h = 1e-4 |x|) of the independent evaluator; '
                        'points whose stencil changes any guard outcome, or where the two step sizes disagree (kinks of |.|), '
                        'are dropped', 'assembled level compares closed-form rows only; rows reading a VarService are compared '
                        'on the columns that do not feed that service; limiter kinks use the one-sided difference of the active side']
    rule = ('all models x all generated Jacobian entries x lattice against numerical derivatives of the declared strings + '
            'completeness; assembled matrices of loaded systems x operating points x status patterns x ipadd against finite '
            'differences; non-trivial = model with >= 1 Jacobian entry / system with dynamics')
    return run.finish(rule)
