"""
C15 - stored and exported results are the simulated values, complete and labelled.

A recorder wrapped around the step routine collects (t, x, y, f) after every accepted step - the solver's own values.
For every configuration of a bounded lattice (save_every, limit_store, max_store, store_f, store_z, output files
on/off, Output selections incl. invalid rows, single or resumed run) on SMIB and kundur_full:
the in-memory series, the npz + lst files (read by an independent reader and by TDSData), export_csv and the csv
replay must contain exactly the recorder's rows selected by the documented thinning rule, bit-identical values, in
columns labelled with the name of the address they hold; chunked off-loading must concatenate to the same rows;
selection only removes columns; queries by variable, device subset and name pattern return the right columns.
"""

import itertools
import os
import shutil
import tempfile

import numpy as np

from vmc.core import Outcome, Part
from vmc import systems

CASES = {'smib': 'smib/SMIB.json', 'kundur': 'kundur/kundur_full.xlsx'}

OUTPUT_ROWS = {
    'none': [],
    'model': [dict(model='GENROU')],
    'model+var': [dict(model='GENROU', varname='omega')],
    'model+dev': [dict(model='GENROU', dev=2)],
    'model+var+dev': [dict(model='GENROU', varname='delta', dev=3)],
    'two_rows': [dict(model='GENROU', varname='omega'), dict(model='Bus', varname='v')],
    'overlap': [dict(model='GENROU', varname='omega'), dict(model='GENROU', varname='omega', dev=2)],
    # overlaps on algebraic addresses: the same variable twice, and a model's external algebraics (at bus addresses) next to Bus.v
    'overlap_alg': [dict(model='Bus', varname='v'), dict(model='Bus', varname='v', dev=1), dict(model='Bus', varname='a')],
    'overlap_ext': [dict(model='GENROU'), dict(model='Bus', varname='v')],
    'invalid_model': [dict(model='NoSuchModel'), dict(model='Bus', varname='v')],
    'invalid_var': [dict(model='GENROU', varname='nosuchvar'), dict(model='Bus', varname='a')],
    'invalid_dev': [dict(model='GENROU', varname='omega', dev=99), dict(model='Bus', varname='v')],
}

DEFAULT = dict(save_every=1, limit_store=0, max_store=900, store_f=0, store_z=0, files=1, output='none', resume=0)
AXES = dict(save_every=[2, 3, 0], limit_store=[1], max_store=[2, 5], store_f=[1], store_z=[1], files=[0],
            output=[k for k in OUTPUT_ROWS if k != 'none'], resume=[1])


def configs(tier):
    out = [dict(DEFAULT)]
    singles = []
    for k, vals in AXES.items():
        for v in vals:
            singles.append((k, v))
            out.append(dict(DEFAULT, **{k: v}))
    for (k1, v1), (k2, v2) in itertools.combinations(singles, 2):
        if k1 == k2:
            continue
        if tier == 'quick' and not ({k1, k2} & {'limit_store', 'resume', 'save_every'}):
            continue
        out.append(dict(DEFAULT, **{k1: v1, k2: v2}))
    return out


class Results(Part):
    name = 'results'
    chunk = 1
    timeout = 600.0
    nproc = 8

    def __init__(self, tier='quick'):
        self.tier = tier

    def describe(self, tier):
        return ('SMIB and kundur_full; configuration lattice: default + all single deviations over ' + str(AXES) + ' + pairs '
                '(those involving limit_store / resume / save_every in quick, all in thorough); tf = 0.5 s')

    def cases(self, tier):
        out = []
        for sysname in CASES:
            for c in configs(tier):
                if sysname == 'smib' and c['output'] != 'none' and 'GENROU' in str(OUTPUT_ROWS[c['output']]):
                    continue
                out.append(dict(sys=sysname, **c))
        return out

    def init_worker(self):
        self.tmp = tempfile.mkdtemp(prefix='c15-')

    def execute(self, case):
        import andes
        out = Outcome()
        seen = set()

        def bad(sig, msg):
            if sig not in seen:
                seen.add(sig)
                out.bad(sig, msg)
        outdir = os.path.join(self.tmp, f'o-{os.getpid()}')
        shutil.rmtree(outdir, ignore_errors=True)
        os.makedirs(outdir)
        try:
            # output-related options must be in effect before set-up (flag names are allocated there)
            opts = [f'TDS.store_z={case["store_z"]}', f'TDS.store_f={case["store_f"]}']
            ss = andes.load(andes.get_case(CASES[case['sys']]), setup=False, default_config=True,
                            no_output=not case['files'], output_path=outdir, config_option=opts)
            for row in OUTPUT_ROWS[case['output']]:
                ss.add('Output', dict(row))
            ss.setup()
            systems.quiet_tds(ss)
            c = ss.TDS.config
            c.save_every, c.limit_store, c.max_store = case['save_every'], case['limit_store'], case['max_store']
            c.store_f, c.store_z = case['store_f'], case['store_z']
            ss.PFlow.run()
            rec = []
            orig = ss.TDS.itm_step

            def wrapped():
                ok = orig()
                if ok:
                    rec.append((float(ss.dae.t), ss.dae.x.copy(), ss.dae.y.copy(), ss.dae.f.copy()))
                return ok
            ss.TDS.itm_step = wrapped
            tfs = [0.2, 0.5] if case['resume'] else [0.5]
            for tf in tfs:
                c.tf = tf
                ok = ss.TDS.run(no_summary=True)
                if not ok:
                    bad('run_failed', f'TDS.run returned False for {case}')
        except Exception as e:
            import traceback
            tb = traceback.extract_tb(e.__traceback__)
            cfg = ','.join(f'{k}={case[k]}' for k in DEFAULT if case[k] != DEFAULT[k]) or 'default'
            bad(f'raises:{type(e).__name__}@{tb[-1].name if tb else "?"}:{cfg}', f'{type(e).__name__}: {e}')
            out.obs = dict(exc=type(e).__name__)
            shutil.rmtree(outdir, ignore_errors=True)
            return out
        dae = ss.dae
        # ---- expected rows and columns
        se = case['save_every']
        if se == 0:
            keep = []
        elif se == 1:
            keep = list(range(len(rec)))
        else:
            keep = [j for j in range(len(rec)) if j % se == 0]
        if ss.Output.n > 0:
            xidx, yidx = self.expected_selection(ss, OUTPUT_ROWS[case['output']])
            if list(map(int, ss.Output.xidx)) != xidx or list(map(int, ss.Output.yidx)) != yidx:
                bad(f'output_selection_wrong:{case["output"]}', f'Output.xidx/yidx = {list(ss.Output.xidx)} / {list(ss.Output.yidx)}, '
                    f'rows select {xidx} / {yidx}')
        else:
            xidx, yidx = list(range(dae.n)), list(range(dae.m))
        exp_t = np.array([rec[j][0] for j in keep])
        exp_x = np.array([rec[j][1][xidx] for j in keep]).reshape(len(keep), len(xidx))
        exp_y = np.array([rec[j][2][yidx] for j in keep]).reshape(len(keep), len(yidx))
        exp_names = [dae.x_name[a] for a in xidx] + [dae.y_name[a] for a in yidx]
        cfg = ','.join(f'{k}={case[k]}' for k in DEFAULT if case[k] != DEFAULT[k]) or 'default'
        # ---- memory series (complete only when not off-loaded)
        if not case['limit_store']:
            ts = dae.ts
            t = np.array(ts.t)
            if len(t) != len(exp_t) or not np.array_equal(t, exp_t):
                bad(f'memory_rows_wrong:{self.cls(case)}', f'[{cfg}] memory holds {len(t)} rows, thinning rule selects {len(exp_t)} of '
                    f'{len(rec)} accepted steps')
            elif len(keep):
                if not (np.array_equal(np.array(ts.x), exp_x) and np.array_equal(np.array(ts.y), exp_y)):
                    bad(f'memory_values_wrong:{self.cls(case)}', f'[{cfg}] stored x/y differ from the values the solver held')
                if case['store_f'] and not np.array_equal(np.array(ts.f), np.array([rec[j][3] for j in keep])):
                    bad('memory_f_wrong', f'[{cfg}] stored f differs from the solver values')
            # queries through the in-memory plotter (the path behind TDS.plt.plot(variable)), with and without a selection
            if len(keep) and case['sys'] == 'kundur':
                try:
                    ss.TDS.load_plotter()
                    plt_ = ss.TDS.plt
                    full_x = np.array([rec[j][1] for j in keep])
                    full_y = np.array([rec[j][2] for j in keep])
                    for var in (ss.GENROU.omega, ss.GENROU.delta, ss.Bus.v, ss.Bus.a, ss.GENROU.vd):
                        addrs = np.asarray(var.a, dtype=int)
                        sel = set(xidx if var.v_code == 'x' else yidx)
                        want_cols = [int(a) for a in addrs if int(a) in sel]
                        idx = plt_._process_yidx(var, None)
                        idx = [] if idx is None else list(np.atleast_1d(idx))
                        if len(idx) != len(want_cols):
                            bad(f'plotter_query_wrong_columns:{"output" if ss.Output.n else "all"}', f'[{cfg}] plotter maps '
                                f'{var.owner.class_name}.{var.name} to {len(idx)} columns, {len(want_cols)} of its addresses are stored')
                            continue
                        if not idx:
                            continue
                        got = np.asarray(plt_.get_values(idx))
                        src = full_x if var.v_code == 'x' else full_y
                        if got.shape != (len(keep), len(want_cols)) or not np.array_equal(got, src[:, want_cols]):
                            bad(f'plotter_query_wrong_values:{"output" if ss.Output.n else "all"}:{var.v_code}', f'[{cfg}] values the '
                                f'plotter returns for {var.owner.class_name}.{var.name} are not the simulated ones')
                except Exception as e:
                    import traceback
                    tb = traceback.extract_tb(e.__traceback__)
                    bad(f'plotter_query_raises:{type(e).__name__}@{tb[-1].name if tb else "?"}', f'[{cfg}] {type(e).__name__}: {e}')
            if len(keep) and case['sys'] == 'kundur' and ss.Output.n == 0:
                d = ts.get_data(ss.GENROU.omega)
                a = np.asarray(ss.GENROU.omega.a, dtype=int)
                if d is None or not np.array_equal(d, exp_x[:, a]):
                    bad('query_by_variable_wrong', f'[{cfg}] get_data(GENROU.omega) differs from the stored columns')
                d2 = ts.get_data((ss.GENROU.omega, ss.GENROU.delta), a=[1, 3])
                a2 = np.concatenate([np.asarray(ss.GENROU.omega.a, dtype=int)[[1, 3]], np.asarray(ss.GENROU.delta.a, dtype=int)[[1, 3]]])
                if d2 is None or not np.array_equal(d2, exp_x[:, a2]):
                    bad('query_by_device_subset_wrong', f'[{cfg}] get_data with a=[1,3] differs')
        # ---- files
        if case['files']:
            npz, lst = ss.files.npz, ss.files.lst
            if not (os.path.isfile(npz) and os.path.isfile(lst)):
                if len(keep):
                    bad(f'output_files_missing:{self.cls(case)}', f'[{cfg}] npz/lst not written')
            else:
                data = np.load(npz)['data']
                names = [ln.split(',')[1].strip() for ln in open(lst).read().splitlines()]
                ncol = 1 + len(xidx) + len(yidx)
                if data.ndim != 2 or data.shape[0] != len(keep):
                    bad(f'file_rows_wrong:{self.cls(case)}', f'[{cfg}] npz holds {data.shape[0] if data.ndim == 2 else data.shape} rows, '
                        f'expected {len(keep)} (of {len(rec)} accepted steps)')
                elif len(keep):
                    if not np.array_equal(data[:, 0], exp_t):
                        bad(f'file_time_wrong:{self.cls(case)}', f'[{cfg}] time column differs')
                    if data.shape[1] < ncol or not np.array_equal(data[:, 1:ncol], np.hstack([exp_x, exp_y])):
                        bad(f'file_values_wrong:{self.cls(case)}', f'[{cfg}] npz values differ from the solver values')
                if names[0] != 'Time [s]' or names[1:1 + len(exp_names)] != exp_names:
                    k = next((i for i, (a, b) in enumerate(zip(names[1:], exp_names)) if a != b), None)
                    bad(f'file_labels_wrong:{self.cls(case)}', f'[{cfg}] lst label #{k}: {names[1 + k] if k is not None and 1 + k < len(names) else None!r} '
                        f'vs {exp_names[k] if k is not None else None!r}')
                # plotting loader, csv export and replay
                if len(keep) and data.ndim == 2 and data.shape[0] == len(keep):
                    try:
                        from andes.plot import TDSData
                        full = os.path.splitext(npz)[0]
                        td = TDSData(full_name=os.path.basename(full), mode='file', path=os.path.dirname(full))
                        if not np.array_equal(td.get_values(list(range(ncol))), data[:, :ncol]):
                            bad('plot_loader_values_wrong', f'[{cfg}] TDSData values differ from the npz content')
                        idx, found = td.find('omega')
                        want = [i + 1 for i, nm in enumerate(exp_names) if 'omega' in nm]
                        if list(idx) != want:
                            bad('plot_loader_query_wrong', f'[{cfg}] find("omega") -> {idx}, labels say {want}')
                        csv = td.export_csv(os.path.join(outdir, 'exp.csv'))
                        body = np.loadtxt(csv, delimiter=',', skiprows=1).reshape(len(keep), -1)
                        if not np.array_equal(body[:, :ncol], data[:, :ncol]):
                            bad('csv_export_wrong', f'[{cfg}] exported csv differs from the npz content')
                        if ss.Output.n == 0 and not case['store_z'] and case['sys'] == 'smib' and case['save_every'] == 1 and not case['resume']:
                            s2 = andes.load(andes.get_case(CASES[case['sys']]), default_config=True, no_output=True)
                            systems.quiet_tds(s2)
                            s2.PFlow.run()
                            s2.TDS.run(no_summary=True, from_csv=csv)
                            t2 = np.array(s2.dae.ts.t)
                            # the csv reader (pandas) is not correctly rounded: 1-ulp tolerance on replayed values
                            if len(t2) != len(exp_t) or not np.allclose(t2, exp_t, rtol=1e-14, atol=0) or \
                                    not np.allclose(np.array(s2.dae.ts.x), exp_x, rtol=1e-14, atol=1e-300):
                                bad('csv_replay_wrong', f'[{cfg}] replay from csv gives {len(t2)} rows / different values')
                    except Exception as e:
                        import traceback
                        tb = traceback.extract_tb(e.__traceback__)
                        bad(f'loader_raises:{type(e).__name__}@{tb[-1].name if tb else "?"}:{self.cls(case)}', f'[{cfg}] {type(e).__name__}: {e}')
        out.obs = dict(cfg=cfg, accepted=len(rec), kept=len(keep), cols=len(exp_names))
        out.transitions = len(rec)
        out.nontrivial = len(keep) > 0
        shutil.rmtree(outdir, ignore_errors=True)
        return out

    @staticmethod
    def cls(case):
        parts = [k for k in ('save_every', 'limit_store', 'resume', 'store_z', 'output') if case[k] != DEFAULT[k]]
        return '+'.join(parts) or 'default'

    @staticmethod
    def expected_selection(ss, rows):
        xs, ys = set(), set()
        for r in rows:
            mdl = ss.models.get(r['model'])
            if mdl is None or mdl.n == 0:
                continue
            var = r.get('varname')
            dev = r.get('dev')
            if var is not None and var not in mdl.cache.all_vars:
                continue
            if dev is not None and dev not in mdl.idx.v:
                continue
            vars_ = list(mdl.cache.all_vars.values()) if var is None else [mdl.cache.all_vars[var]]
            for v in vars_:
                addrs = list(np.asarray(v.a, dtype=int)) if dev is None else [int(v.a[list(mdl.idx.v).index(dev)])]
                (xs if v.v_code == 'x' else ys).update(int(a) for a in addrs)
        return sorted(xs), sorted(ys)


def parts(tier):
    return [Results(tier)]


def run(run, only=None):
    for p in parts(run.tier):
        run.run_part(p, audit=3)
    run.assumptions += ['thinning rule as documented: save_every = 1 stores every accepted step, N > 1 every N-th counted from the '
                        'first, 0 stores nothing', 'bit-identical comparison everywhere except csv (19 significant digits, exact)',
                        'the recorder wraps the step routine and copies x, y, f after each accepted step without touching them']
    rule = ('configuration lattice (default + singles + pairs) x 2 systems; every stored / exported row and label compared with '
            'the recorder; non-trivial = at least one stored row')
    return run.finish(rule)
