"""
C08 - eigenvalue analysis reports the true small-signal modes of the DAE.

seam : the real EIG routine driven on a stub system whose DAE holds hand-built Jacobians (n <= 4 states, m <= 2
       algebraic variables; stable / oscillatory / unstable / marginal): ALL zero-time-constant patterns (except
       all-zero) x ALL permutations of the state order; oracle = finite generalised eigenvalues of the pencil
       ([[fx, fy], [gx, gy]], diag(T, 0)) by scipy.linalg.eig, participation factors from an independent
       eigen-decomposition, partition of the counts.
real : stock dynamic cases (incl. the shipped zero-time-constant case) after power flow and initialisation, and
       every subset of <= 1 (2) exciter lead-lag time constants set to zero; same oracle on the assembled Jacobians.
"""

import itertools

import numpy as np

from vmc.core import Outcome, Part

# ------------------------------------------------------------------ reference (numpy / scipy only)


def ref_pencil(fx, fy, gx, gy, T):
    """Finite generalised eigenvalues of (J, E) with E = diag(T, 0)."""
    import scipy.linalg as sl
    n, m = fx.shape[0], gy.shape[0]
    J = np.block([[fx, fy], [gx, gy]])
    E = np.diag(np.concatenate([T, np.zeros(m)]))
    w = sl.eig(J, E, right=False, homogeneous_eigvals=True)
    alpha, beta = w
    fin = np.abs(beta) > 1e-9 * np.maximum(1.0, np.abs(alpha))
    return alpha[fin] / beta[fin]


def algebraic_cond(fx, fy, gx, gy, T):
    """Condition number of the full algebraic block (original algebraic variables + zero-T states)."""
    z = np.flatnonzero(T == 0)
    B = np.block([[fx[np.ix_(z, z)], fy[z, :]], [gx[:, z], gy]])
    return np.linalg.cond(B)


def ref_state_matrix(fx, fy, gx, gy, T):
    """Reduced state matrix with zero-T states treated as algebraic; returns (As, kept state indices)."""
    z = np.flatnonzero(T == 0)
    k = np.flatnonzero(T != 0)
    A = fx - fy @ np.linalg.solve(gy, gx)
    if len(z):
        A = A[np.ix_(k, k)] - A[np.ix_(k, z)] @ np.linalg.solve(A[np.ix_(z, z)], A[np.ix_(z, k)])
    return A / T[k][:, None], k


def ref_pfactors(As):
    mu, N = np.linalg.eig(As)
    W = np.linalg.inv(N).T
    P = np.abs(W) * np.abs(N)            # P[state, mode]
    P = P / P.sum(axis=0, keepdims=True)
    return mu, P.T                        # [mode, state]


def match(a, b):
    """Greedy multiset matching of complex arrays; returns max distance (inf when sizes differ)."""
    a = list(a)
    b = list(b)
    if len(a) != len(b):
        return float('inf')
    worst = 0.0
    for x in a:
        j = int(np.argmin([abs(x - y) for y in b]))
        worst = max(worst, abs(x - b[j]) / max(1.0, abs(x)))
        b.pop(j)
    return worst


# ------------------------------------------------------------------ hand-built systems

def base_systems(tier):
    S = {}
    S['stable3'] = dict(
        fx=[[-2.0, 0.5, 0.0], [0.3, -1.0, 0.4], [0.0, 0.2, -3.0]], fy=[[0.5], [0.1], [-0.2]],
        gx=[[0.2, -0.1, 0.3]], gy=[[-2.0]], T=[1.0, 2.0, 0.5])
    S['osc4'] = dict(
        fx=[[0.0, 6.0, 0.0, 0.0], [-5.0, -0.3, 1.0, 0.0], [0.0, 0.5, -2.0, 0.7], [0.2, 0.0, 0.4, -4.0]],
        fy=[[0.0, 0.1], [0.4, 0.0], [0.0, -0.3], [0.2, 0.2]],
        gx=[[0.1, 0.0, 0.2, 0.0], [0.0, 0.3, 0.0, -0.1]], gy=[[-3.0, 0.5], [0.2, -2.0]], T=[1.0, 4.0, 0.3, 2.0])
    S['unstable3'] = dict(
        fx=[[0.4, 1.0, 0.0], [0.0, -1.5, 0.3], [0.5, 0.0, -2.5]], fy=[[0.1, 0.0], [0.0, 0.2], [0.3, 0.1]],
        gx=[[0.2, 0.0, 0.1], [0.0, 0.1, 0.0]], gy=[[-1.0, 0.2], [0.1, -4.0]], T=[2.0, 1.0, 0.25])
    # marginal: first state is a pure integrator of nothing (zero row after reduction) -> eigenvalue exactly 0
    S['marginal4'] = dict(
        fx=[[0.0, 0.0, 0.0, 0.0], [1.0, -1.0, 0.2, 0.0], [0.0, 0.3, -2.0, 0.5], [0.0, 0.0, 0.4, -3.0]],
        fy=[[0.0], [0.2], [0.1], [-0.1]], gx=[[0.0, 0.2, 0.1, 0.3]], gy=[[-2.5]], T=[1.0, 3.0, 0.5, 1.5])
    # undamped oscillator (an exactly imaginary pair: zero real part, non-zero magnitude) next to a decaying state
    S['undamped3'] = dict(
        fx=[[0.0, 3.0, 0.0], [-3.0, 0.0, 0.0], [0.0, 0.0, -1.0]], fy=[[0.0], [0.0], [0.1]],
        gx=[[0.0, 0.0, 0.3]], gy=[[-2.0]], T=[1.0, 1.0, 2.0])
    S['two'] = dict(fx=[[-1.0, 2.0], [-2.0, -1.0]], fy=[[0.3], [0.1]], gx=[[0.1, 0.2]], gy=[[-1.0]], T=[0.5, 2.0])
    if tier != 'quick':
        rng = np.random.RandomState(7)
        n, m = 5, 3
        S['five'] = dict(fx=(rng.uniform(-1, 1, (n, n)) - 3 * np.eye(n)).tolist(), fy=rng.uniform(-.5, .5, (n, m)).tolist(),
                         gx=rng.uniform(-.5, .5, (m, n)).tolist(), gy=(rng.uniform(-.3, .3, (m, m)) - 2 * np.eye(m)).tolist(),
                         T=[1.0, 2.0, 0.5, 4.0, 0.25])
    return S


class Seam(Part):
    name = 'seam'
    chunk = 32
    timeout = 60.0

    def __init__(self, tier='quick'):
        self.tier = tier

    def describe(self, tier):
        return (f'{len(base_systems(tier))} hand-built DAE systems x all zero-T patterns (non-empty set of dynamic states '
                f'kept) x all permutations of the state order')

    def cases(self, tier):
        out = []
        for name, s in base_systems(tier).items():
            n = len(s['T'])
            perms = list(itertools.permutations(range(n))) if n <= 4 else \
                [tuple(range(n)), tuple(reversed(range(n))), (1, 0, 3, 2, 4), (4, 0, 1, 2, 3), (2, 4, 1, 0, 3)]
            fx, fy, gx, gy = (np.array(s[k]) for k in ('fx', 'fy', 'gx', 'gy'))
            for zmask in range(2 ** n - 1):
                T = np.array([0.0 if (zmask >> i) & 1 else t for i, t in enumerate(s['T'])])
                if algebraic_cond(fx, fy, gx, gy, T) > 1e3:
                    continue          # (near-)singular algebraic block: outside the property's precondition
                for p in perms:
                    out.append([name, zmask, list(p)])
        return out

    def init_worker(self):
        self.S = base_systems(self.tier)

    def execute(self, case):
        from andes.routines.eig import EIG
        from andes.shared import matrix, sparse
        name, zmask, perm = case
        out = Outcome()
        s = self.S[name]
        p = np.array(perm)
        fx = np.array(s['fx'])[np.ix_(p, p)]
        fy = np.array(s['fy'])[p, :]
        gx = np.array(s['gx'])[:, p]
        gy = np.array(s['gy'])
        T0 = np.array(s['T'])[p]
        T = np.array([0.0 if (zmask >> int(orig)) & 1 else t for orig, t in zip(p, T0)])
        n = len(T)

        class Stub:
            pass
        stub = Stub()
        stub.options = {}
        stub.dae = Stub()
        stub.dae.fx = sparse(matrix(fx))
        stub.dae.fy = sparse(matrix(fy))
        stub.dae.gx = sparse(matrix(gx))
        stub.dae.gy = sparse(matrix(gy))
        stub.dae.Tf = T.copy()
        stub.dae.n = n
        stub.dae.x_name = [f's{int(o)}' for o in p]
        eig = EIG(system=stub, config=None)
        try:
            eig.calc_As()
            eig.mu, eig.pfactors, eig.N, eig.W = eig.calc_pfactor()
            eig._store_stats()
        except Exception as e:
            import traceback
            tb = traceback.extract_tb(e.__traceback__)
            out.bad(f'eig_raises:{type(e).__name__}@{tb[-1].name if tb else "?"}:{"zeroT" if zmask else "regular"}',
                    f'{type(e).__name__}: {e}')
            out.obs = dict(exc=type(e).__name__)
            return out
        self.oracle(out, eig, fx, fy, gx, gy, T, stub.dae.x_name, zmask != 0)
        out.obs = dict(mu=np.round(np.sort_complex(np.asarray(eig.mu)), 6).tolist(),
                       counts=[int(eig.n_positive), int(eig.n_zeros), int(eig.n_negative)])
        out.nontrivial = zmask != 0
        return out

    @staticmethod
    def oracle(out, eig, fx, fy, gx, gy, T, x_name, has_zero, tolrel=1e-6, real=False):
        kind = 'zeroT' if has_zero else 'regular'
        mu = np.asarray(eig.mu).ravel()
        if not real:
            if algebraic_cond(fx, fy, gx, gy, T) > 1e8:
                return        # precondition of the property (non-singular algebraic block) fails: nothing is claimed
            ref = ref_pencil(fx, fy, gx, gy, T)
        else:
            # Real networks: the algebraic block is badly scaled (cond 1e9..1e10 in every stock case) although the reduction is
            # accurate to 1e-12, and the finite-eigenvalue filter of the QZ pencil is unreliable there. Reference = eigenvalues of
            # the Schur reduction computed by the harness; precondition = both eliminations are numerically non-singular.
            z = np.flatnonzero(T == 0)
            try:
                A0 = fx - fy @ np.linalg.solve(gy, gx)
                czz = np.linalg.cond(A0[np.ix_(z, z)]) if len(z) else 1.0
            except np.linalg.LinAlgError:
                return
            if not np.isfinite(czz) or czz > 1e10 or np.linalg.cond(gy) > 1e14:
                return
            # structure holds whatever the conditioning: one mode per state with a non-zero time constant
            n_dyn = int(np.sum(T != 0))
            if len(mu) != n_dyn:
                out.bad(f'mode_count_wrong:{kind}', f'{len(mu)} eigenvalues reported, {n_dyn} states have a non-zero time constant')
            ref = np.linalg.eigvals(ref_state_matrix(fx, fy, gx, gy, T)[0])
        d = match(mu, ref)
        if d > tolrel:
            out.bad(f'eigenvalues_wrong:{kind}', f'reported {np.round(np.sort_complex(mu), 5).tolist()} vs pencil '
                    f'{np.round(np.sort_complex(ref), 5).tolist()} (distance {d:.2e})')
        As_ref, kept = ref_state_matrix(fx, fy, gx, gy, T)
        As = np.array(matrix_to_np(eig.As))
        if As.shape != As_ref.shape:
            out.bad(f'state_matrix_shape_wrong:{kind}', f'{As.shape} vs {As_ref.shape}')
        elif not has_zero and np.max(np.abs(As - As_ref)) > 1e-8 * max(1.0, np.max(np.abs(As_ref))):
            out.bad('state_matrix_wrong:regular', f'max deviation {np.max(np.abs(As - As_ref)):.2e}')
        tol = eig.config.tol
        npos = int(np.sum(mu.real > tol))
        nzero = int(np.sum(np.abs(mu.real) <= tol))
        nneg = int(np.sum(mu.real < -tol))
        got = (int(eig.n_positive), int(eig.n_zeros), int(eig.n_negative))
        if sum(got) != len(mu):
            out.bad('counts_do_not_partition', f'positive/zero/negative = {got} for {len(mu)} eigenvalues')
        elif got != (npos, nzero, nneg):
            out.bad('counts_wrong', f'{got} vs {(npos, nzero, nneg)}')
        pf = np.asarray(eig.pfactors, dtype=float)
        if pf.ndim == 2 and pf.shape[0] == len(mu):
            if np.any(pf < 0):
                out.bad('pfactor_negative', 'negative participation factor')
            sums = pf.sum(axis=1)
            if np.max(np.abs(sums - 1.0)) > 1e-4 * pf.shape[1] + 1e-9:
                out.bad(f'pfactor_mode_sum_not_one:{kind}', f'per-mode sums {np.round(sums, 4).tolist()}')
            # most associated state: compare with an independent decomposition of the reference matrix
            if d <= tolrel:
                mu_r, P_r = ref_pfactors(As_ref)
                names = [x_name[i] for i in kept]
                rep_names = list(eig.x_name)
                for i, lam in enumerate(mu):
                    j = int(np.argmin(np.abs(mu_r - lam)))
                    row = P_r[j]
                    order = np.argsort(row)[::-1]
                    if len(row) > 1 and row[order[0]] - row[order[1]] < 1e-3:
                        continue
                    if np.sum(np.abs(mu_r - lam) < 1e-6 * max(1.0, abs(lam))) > 1:
                        continue      # repeated eigenvalue: the eigenvector basis is not unique
                    got_name = rep_names[int(np.argmax(pf[i]))] if len(rep_names) == pf.shape[1] else None
                    if got_name != names[order[0]]:
                        out.bad(f'most_associated_state_wrong:{kind}', f'mode {lam:.4f}: reported {got_name}, reference '
                                f'{names[order[0]]} (factors {np.round(row, 3).tolist()})')
                        break


def matrix_to_np(M):
    from andes.shared import matrix
    try:
        return np.array(matrix(M))
    except Exception:
        return np.array(M)


class Real(Part):
    name = 'real'
    chunk = 1
    timeout = 600.0
    nproc = 8

    def __init__(self, tier='quick'):
        self.tier = tier

    CASES = ['smib/SMIB.json', 'kundur/kundur_full.xlsx', 'kundur/kundur_exdc2_zero_tb.xlsx', 'ieee14/ieee14_full.xlsx',
             'kundur/kundur_aw.xlsx', 'ieee14/ieee14_esst3a.xlsx', 'ieee39/ieee39_full.xlsx']

    def describe(self, tier):
        k = 1 if tier == 'quick' else 2
        return (f'stock cases {self.CASES} through EIG.run; plus every subset of <= {k} EXDC2 lead-lag constants (TB and TC '
                f'together) set to zero in kundur_full / kundur_exdc2_zero_tb')

    def cases(self, tier):
        out = [dict(case=c, zero=[]) for c in self.CASES]
        k = 1 if tier == 'quick' else 2
        for c in ('kundur/kundur_exdc2_zero_tb.xlsx',):
            for r in range(1, k + 1):
                for sub in itertools.combinations(range(4), r):
                    out.append(dict(case=c, zero=list(sub)))
        return out

    def execute(self, case):
        from vmc import systems
        out = Outcome()
        ss = systems.load_case(case['case'])
        systems.quiet_tds(ss)
        if case['zero']:
            for k in case['zero']:
                idx = ss.EXDC2.idx.v[k]
                ss.EXDC2.alter('TB', idx, 0.0)
                ss.EXDC2.alter('TC', idx, 0.0)
        ss.PFlow.run()
        try:
            ok = ss.EIG.run()
        except Exception as e:
            import traceback
            tb = traceback.extract_tb(e.__traceback__)
            out.bad(f'eig_raises:{type(e).__name__}@{tb[-1].name if tb else "?"}', f'{type(e).__name__}: {e}')
            out.obs = dict(exc=type(e).__name__)
            return out
        dae = ss.dae
        fx, fy, gx, gy = (matrix_to_np(M) for M in (dae.fx, dae.fy, dae.gx, dae.gy))
        T = np.array(dae.Tf, dtype=float)
        has_zero = bool(np.any(T == 0))
        Seam.oracle(out, ss.EIG, fx, fy, gx, gy, T, list(dae.x_name), has_zero, tolrel=1e-5, real=True)
        if not ok:
            out.bad('eig_run_failed', 'EIG.run returned False')
        mu = np.asarray(ss.EIG.mu).ravel()
        out.obs = dict(n=int(dae.n), nzeroT=int(np.sum(T == 0)), maxre=round(float(mu.real.max()), 6),
                       counts=[int(ss.EIG.n_positive), int(ss.EIG.n_zeros), int(ss.EIG.n_negative)])
        out.nontrivial = True
        return out


class Rerun(Part):
    """EIG run repeatedly on ONE System while time constants move between zero and non-zero (Model.alter)."""
    name = 'rerun'
    chunk = 4
    timeout = 600.0
    nproc = 8

    OPS = ['TR=0', 'TR=0.05', 'TBC=0', 'TBC=orig']

    def __init__(self, tier='quick'):
        self.tier = tier

    def describe(self, tier):
        d = 3 if tier == 'quick' else 4
        return (f'kundur_full, one System: all sequences of depth <= {d} over {self.OPS} (EXDC2 #1 filter constant; EXDC2 #2 lead-lag '
                f'constants), EIG.run + full oracle after every operation (zero -> non-zero -> zero histories)')

    def cases(self, tier):
        d = 3 if tier == 'quick' else 4
        out = []
        for r in range(1, d + 1):
            out += [list(q) for q in itertools.product(range(len(self.OPS)), repeat=r)]
        return out

    def execute(self, case):
        from vmc import systems
        out = Outcome()
        ss = systems.load_case('kundur/kundur_full.xlsx')
        systems.quiet_tds(ss)
        ss.PFlow.run()
        i1, i2 = ss.EXDC2.idx.v[0], ss.EXDC2.idx.v[1]
        tb0, tc0 = float(ss.EXDC2.TB.v[1]), float(ss.EXDC2.TC.v[1])
        seen = set()
        log = []
        try:
            ss.EIG.run()
            for step, k in enumerate(case):
                op = self.OPS[k]
                if op == 'TR=0':
                    ss.EXDC2.alter('TR', i1, 0.0)
                elif op == 'TR=0.05':
                    ss.EXDC2.alter('TR', i1, 0.05)
                elif op == 'TBC=0':
                    ss.EXDC2.alter('TB', i2, 0.0)
                    ss.EXDC2.alter('TC', i2, 0.0)
                else:
                    ss.EXDC2.alter('TB', i2, tb0)
                    ss.EXDC2.alter('TC', i2, tc0)
                ok = ss.EIG.run()
                dae = ss.dae
                fx, fy, gx, gy = (matrix_to_np(M) for M in (dae.fx, dae.fy, dae.gx, dae.gy))
                T = np.array(dae.Tf, dtype=float)
                sub = Outcome()
                Seam.oracle(sub, ss.EIG, fx, fy, gx, gy, T, list(dae.x_name), bool(np.any(T == 0)), tolrel=1e-5, real=True)
                if not ok:
                    sub.bad('eig_run_failed', 'EIG.run returned False')
                n_modes = int(np.asarray(ss.EIG.mu).size)
                log.append([op, int(np.sum(T == 0)), n_modes])
                for v in sub.violations:
                    hist = 'after_zero_to_nonzero' if any(self.OPS[j] in ('TR=0', 'TBC=0') for j in case[:step]) else 'first_change'
                    sig = f'{v["sig"]}:rerun:{hist}'
                    if sig not in seen:
                        seen.add(sig)
                        out.bad(sig, f'after {[self.OPS[j] for j in case[:step + 1]]}: {v["msg"]}')
        except Exception as e:
            import traceback
            tb = traceback.extract_tb(e.__traceback__)
            out.bad(f'eig_raises:{type(e).__name__}@{tb[-1].name if tb else "?"}:rerun', f'{type(e).__name__}: {e}')
        out.obs = dict(log=log)
        out.transitions = len(case) + 1
        out.nontrivial = True
        return out


class OpPoint(Part):
    """
    "... of the current operating point": eigenvalue analysis called after the system has moved - a simulation with a
    disturbance, continued to several end times, with lazy and with honest Jacobian updates.  After EIG.run the
    harness refreshes the Jacobians at the point the System is at (System.j_update) and repeats the full oracle
    against those matrices.
    """
    name = 'oppoint'
    chunk = 1
    timeout = 900.0
    nproc = 8

    def __init__(self, tier='quick'):
        self.tier = tier

    CASES = ['kundur/kundur_full.xlsx', 'ieee14/ieee14_fault.xlsx', 'kundur/kundur_exdc2_zero_tb.xlsx']

    def describe(self, tier):
        return (f'{self.CASES if tier != "quick" else self.CASES[:2]}: histories TDS.run(tf) [-> TDS.run(tf2)] -> EIG.run for tf in (0.5, 2.0), '
                f'tf2 = tf + 1, a line trip at 0.2 s, honest in (0, 1), both integration methods; the reported modes against the pencil '
                f'of the Jacobians refreshed at the point reached')

    def cases(self, tier):
        out = []
        for c in (self.CASES if tier != 'quick' else self.CASES[:2]):
            for tf in (0.5, 2.0):
                for honest in (0, 1):
                    for method in ('trapezoid', 'backeuler'):
                        for resume in (0, 1):
                            if tier == 'quick' and (method == 'backeuler' and (honest or resume)):
                                continue
                            out.append(dict(case=c, tf=tf, honest=honest, method=method, resume=resume))
        return out

    def execute(self, case):
        from vmc import systems
        out = Outcome()
        ss = systems.load_case(case['case'], setup=False)
        for m in ('Toggle', 'Fault', 'Alter'):
            mdl = getattr(ss, m, None)
            if mdl is not None and mdl.n:
                mdl.u.v[:] = [0] * mdl.n
        ss.add('Toggle', dict(idx='TOP', model='Line', dev=ss.Line.idx.v[min(7, ss.Line.n - 1)], t=0.2))
        ss.setup()
        systems.quiet_tds(ss)
        try:
            if not ss.PFlow.run():
                out.obs = dict(skip='power flow failed')
                return out
            c = ss.TDS.config
            c.honest, c.criteria = case['honest'], 0
            c.method = case['method']
            ss.TDS.set_method(case['method'])
            c.tf = case['tf']
            ok = ss.TDS.run(no_summary=True)
            if ok and case['resume']:
                c.tf = case['tf'] + 1.0
                ok = ss.TDS.run(no_summary=True)
            if not ok:
                out.obs = dict(skip='simulation failed')
                return out
            x_at, y_at = ss.dae.x.copy(), ss.dae.y.copy()
            ok = ss.EIG.run()
            if not ok:
                out.bad('eig_run_failed:oppoint', 'EIG.run returned False after a successful simulation')
            if not (np.array_equal(ss.dae.x, x_at) and np.array_equal(ss.dae.y, y_at)):
                out.bad('eig_moved_the_operating_point', 'EIG.run changed dae.x / dae.y')
            mu = np.array(ss.EIG.mu).ravel().copy()
            # reference: Jacobians refreshed at the point the System is at
            dae = ss.dae
            ss.TDS.fg_update(ss.exist.pflow_tds)
            ss.j_update(models=ss.exist.pflow_tds)
            fx, fy, gx, gy = (matrix_to_np(M) for M in (dae.fx, dae.fy, dae.gx, dae.gy))
            T = np.array(dae.Tf, dtype=float)
            # same reference and preconditions as part real: eigenvalues of the harness's own Schur reduction (the finite-eigenvalue
            # filter of the QZ pencil is unreliable on badly scaled real networks), one mode per state with a non-zero time constant
            z = np.flatnonzero(T == 0)
            try:
                A0 = fx - fy @ np.linalg.solve(gy, gx)
                czz = np.linalg.cond(A0[np.ix_(z, z)]) if len(z) else 1.0
            except np.linalg.LinAlgError:
                czz = np.inf
            if not np.isfinite(czz) or czz > 1e10 or np.linalg.cond(gy) > 1e14:
                out.obs = dict(skip='an elimination is numerically singular at the point reached')
                return out
            n_dyn = int(np.sum(T != 0))
            if len(mu) != n_dyn:
                out.bad('mode_count_wrong:oppoint', f'{len(mu)} modes reported, {n_dyn} states have a non-zero time constant')
            else:
                ref = np.linalg.eigvals(ref_state_matrix(fx, fy, gx, gy, T)[0])
                worst = float(match(mu, ref))
                if worst > 2e-3:
                    out.bad('modes_not_of_the_current_operating_point', f'after TDS.run to t = {float(dae.t)!r} (honest = {case["honest"]}): '
                            f'reported eigenvalues differ from those of the Jacobians refreshed at this point by {worst:.3e} (relative)')
                out.obs = dict(t=float(dae.t), n=len(mu), worst=float(f'{worst:.2e}'))
        except Exception as e:
            import traceback
            tb = traceback.extract_tb(e.__traceback__)
            out.bad(f'eig_raises:{type(e).__name__}@{tb[-1].name if tb else "?"}:oppoint', f'{type(e).__name__}: {e}')
        out.transitions = 3
        return out


def parts(tier):
    return [Seam(tier), Real(tier), Rerun(tier), OpPoint(tier)]


def run(run, only=None):
    for p in parts(run.tier):
        if only and p.name != only:
            continue
        run.run_part(p, audit=3)
    run.assumptions += ['algebraic block (and the zero-T sub-block) non-singular, as the property assumes',
                        'most-associated state judged only where the reference maximum is unique by a 1e-3 margin']
    rule = ('all zero-time-constant patterns x all state permutations of hand-built pencils through the real EIG methods, '
            'and stock cases through EIG.run, against scipy generalised eigenvalues; non-trivial = at least one zero T')
    return run.finish(rule)
