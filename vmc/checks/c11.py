"""
C11 - per-unit conversion and parameter alteration keep both value bases consistent.

coeff   : stock cases covering the shipped models x base variants (device Sn x {1, 0.5, 2.47}, device Vn x {1, 1.1},
          system MVA in {100, 200}): for EVERY populated model and EVERY parameter flagged power / ipower / voltage /
          current / z / y / r / g / dc_voltage / dc_current: system value == input value * k with k recomputed by
          vmc.refs.pu from the device and bus bases.
history : explicit-state exploration of operation sequences on the 5-bus dynamic case: {alter (input base), alter
          (attr='vin', system base), Group.alter, set, PFlow.run, TDS.init, TDS.run(+0.1 s), System.reset, dump json,
          dump xlsx, as_dict(vin)} over one parameter of each kind + a time constant; after every operation the live
          (vin, v, pu_coeff) equal a reference dict, every export written after an alteration holds the altered input
          value, the power balance recomputed from the input data (vmc.refs.acflow) holds after a power flow, an altered
          time constant is in dae.Tf / TDS.Teye, and a system reloaded from the export reproduces the live results.
"""

import io
import itertools
import json
import os
import tempfile

import numpy as np

from vmc.core import Outcome, Part

KINDS = ('power', 'ipower', 'voltage', 'current', 'z', 'y', 'r', 'g', 'dc_voltage', 'dc_current')

COEFF_CASES = ['5bus/pjm5bus.xlsx', 'kundur/kundur_full.xlsx', 'ieee14/ieee14_full.xlsx', 'ieee14/ieee14_wt3.xlsx',
               'ieee14/ieee14_pvd1.xlsx', 'ieee14/ieee14_esst3a.xlsx', 'kundur/kundur_vsc.xlsx', 'ieee14/ieee14_solar.xlsx',
               'ieee14/ieee14_shuntsw.xlsx', 'ieee14/ieee14_fload.json', 'ieee14/ieee14_zip.json', 'smib/SMIB.json',
               'kundur/kundur_aw.xlsx', 'ieee14/ieee14_esd1.xlsx', 'wecc/wecc_full.xlsx', 'npcc/npcc.xlsx',
               'ieee14/ieee14_hygov.xlsx', 'ieee14/ieee14_ieeet3.xlsx', 'ieee39/ieee39_full.xlsx']


def ref_coeffs(ss, mdl):
    """Textbook ratios, recomputed from the raw bases (vmc reference, mirrors no andes code path)."""
    Sb = float(ss.config.mva)
    n = mdl.n
    Sn = np.asarray(mdl.Sn.v, dtype=float) if 'Sn' in mdl.__dict__ else np.full(n, Sb)
    Vb = np.ones(n)
    Vn = np.ones(n)
    busvn = {b: float(v) for b, v in zip(ss.Bus.idx.v, ss.Bus.Vn.v)}
    if 'bus' in mdl.__dict__:
        Vb = np.array([busvn[b] for b in mdl.bus.v])
        Vn = np.asarray(mdl.Vn.v, dtype=float) if 'Vn' in mdl.__dict__ else Vb
    elif 'bus1' in mdl.__dict__:
        Vb = np.array([busvn[b] for b in mdl.bus1.v])
        Vn = np.asarray(mdl.Vn1.v, dtype=float) if 'Vn1' in mdl.__dict__ else Vb
    out = {'power': Sn / Sb, 'ipower': Sb / Sn, 'voltage': Vn / Vb, 'current': (Sn / Vn) / (Sb / Vb),
           'z': (Vn ** 2 / Sn) / (Vb ** 2 / Sb), 'y': (Vb ** 2 / Sb) / (Vn ** 2 / Sn)}
    if 'node' in mdl.__dict__ or 'node1' in mdl.__dict__:
        nodevn = {b: float(v) for b, v in zip(ss.Node.idx.v, ss.Node.Vdcn.v)}
        key = 'node' if 'node' in mdl.__dict__ else 'node1'
        Vdcb = np.array([nodevn[b] for b in mdl.__dict__[key].v])
        vname = 'Vdcn' if key == 'node' else 'Vdcn1'
        Vdcn = np.asarray(mdl.__dict__[vname].v, dtype=float) if vname in mdl.__dict__ else Vdcb
        Idcn = np.asarray(mdl.Idcn.v, dtype=float) if 'Idcn' in mdl.__dict__ else Sb / Vdcb
        Idcb = Sb / Vdcb
        out.update({'dc_voltage': Vdcn / Vdcb, 'dc_current': Idcn / Idcb, 'r': (Vdcn / Idcn) / (Vdcb / Idcb),
                    'g': (Vdcb / Idcb) / (Vdcn / Idcn)})
    return out


class Coeff(Part):
    name = 'coeff'
    chunk = 1
    timeout = 600.0
    nproc = 8

    def describe(self, tier):
        return (f'{len(COEFF_CASES)} stock cases x device-Sn factor in (1, 0.5, 2.47) x device-Vn factor in (1, 1.1) x system '
                f'MVA in (100, 200): every flagged parameter of every populated model')

    def cases(self, tier):
        out = []
        for c in COEFF_CASES:
            for sf, vf, mva in itertools.product((1.0, 0.5, 2.47), (1.0, 1.1), (100, 200)):
                if tier == 'quick' and (sf, vf, mva) not in ((1.0, 1.0, 100), (0.5, 1.1, 200), (2.47, 1.0, 100), (1.0, 1.1, 200)):
                    continue
                out.append(dict(case=c, sf=sf, vf=vf, mva=mva))
        return out

    def execute(self, case):
        from vmc import systems
        out = Outcome()
        try:
            ss = systems.load_case(case['case'], setup=False, config_option=[f'System.mva={case["mva"]}'])
        except Exception as e:
            out.obs = dict(skipped=f'{type(e).__name__}')
            out.nontrivial = False
            return out
        for mdl in ss.models.values():
            if mdl.n == 0 or mdl.class_name == 'Bus':
                continue
            for pname, f in (('Sn', case['sf']), ('Vn', case['vf']), ('Vn1', case['vf'])):
                from andes.core.param import NumParam
                if pname in mdl.__dict__ and isinstance(mdl.__dict__[pname], NumParam):
                    p = mdl.__dict__[pname]
                    p.v = [x * f for x in p.v]
        try:
            ss.setup()
        except Exception as e:
            out.bad(f'setup_raises:{type(e).__name__}', f'{type(e).__name__}: {e}')
            out.obs = dict(exc=type(e).__name__)
            return out
        nchk = 0
        nmod = 0
        seen = set()
        for mdl in ss.models.values():
            if mdl.n == 0:
                continue
            co = ref_coeffs(ss, mdl)
            had = False
            for kind in KINDS:
                for pname, p in mdl.find_param(kind).items():
                    if kind not in co or not hasattr(p, 'vin') or p.vin is None:
                        continue
                    had = True
                    nchk += mdl.n
                    k = co[kind]
                    try:
                        vin = np.asarray(p.vin, dtype=float)
                        v = np.asarray(p.v, dtype=float)
                    except (ValueError, TypeError):
                        vin = np.array([np.asarray(x, dtype=float) for x in p.vin], dtype=object)
                        v = np.array([np.asarray(x, dtype=float) for x in p.v], dtype=object)
                        for i in range(mdl.n):
                            if not np.allclose(v[i], vin[i] * np.atleast_1d(k)[i if np.ndim(k) else 0], rtol=1e-12):
                                sig = f'pu_value_wrong:{kind}'
                                if sig not in seen:
                                    seen.add(sig)
                                    out.bad(sig, f'{mdl.class_name}.{pname}[{mdl.idx.v[i]!r}] ({kind}, list-valued)')
                        continue
                    kk = np.asarray(k, dtype=float)
                    if vin.ndim == 2 and kk.ndim == 1:
                        kk = kk[:, None]
                    k = kk if vin.ndim == 2 else k
                    exp = vin * k
                    with np.errstate(all='ignore'):
                        okm = np.isclose(v, exp, rtol=1e-12, atol=1e-14) | (np.isnan(v) & np.isnan(exp)) | (np.isinf(v) & np.isinf(exp))
                    if not np.all(okm):
                        i = int(np.flatnonzero(~okm)[0])
                        sig = f'pu_value_wrong:{kind}'
                        if sig not in seen:
                            seen.add(sig)
                            out.bad(sig, f'{mdl.class_name}.{pname}[{mdl.idx.v[i]!r}] ({kind}): input {vin[i]!r}, system value '
                                    f'{v[i]!r}, textbook input*k = {exp[i]!r} (k = {np.atleast_1d(k)[i] if np.ndim(k) else k!r})')
                    pc = np.asarray(p.pu_coeff, dtype=float)
                    if pc.ndim == np.ndim(k) and not np.allclose(pc, np.broadcast_to(k, pc.shape), rtol=1e-12):
                        sig = f'pu_coeff_wrong:{kind}'
                        if sig not in seen:
                            seen.add(sig)
                            out.bad(sig, f'{mdl.class_name}.{pname}: stored pu_coeff differs from the textbook ratio')
            nmod += had
        out.obs = dict(case=case['case'], models=nmod, values=nchk)
        out.transitions = nchk
        out.nontrivial = nchk > 0
        return out


# ------------------------------------------------------------------ histories

PARAMS = [('PQ', 'p0', 0, 2.3), ('Line', 'x', 0, 0.03), ('Line', 'b', 1, 0.05), ('PV', 'v0', 2, 1.02),
          ('GENCLS', 'M', 2, 5.0), ('GENCLS', 'D', 3, 2.0), ('PV', 'p0', 4, 3.1)]

OPS = ['alter0', 'alter1', 'altervin0', 'galter0', 'set0', 'alterM', 'altervinM', 'pflow', 'tdsinit', 'tdsrun', 'reset', 'json',
       'xlsx', 'asdict']


class History(Part):
    name = 'history'
    chunk = 2
    timeout = 600.0
    nproc = 8

    def __init__(self, tier='quick'):
        self.tier = tier

    def describe(self, tier):
        return ('5-bus dynamic case; operations ' + str(OPS) + '; all sequences of depth <= 2, and depth 3 ending in a checking '
                'operation (pflow / tdsinit / json / xlsx / asdict)' + ('' if tier == 'quick' else '; full depth 3'))

    def cases(self, tier):
        n = len(OPS)
        out = [[i] for i in range(n)] + [[i, j] for i in range(n) for j in range(n)]
        enders = [OPS.index(o) for o in ('pflow', 'tdsinit', 'json', 'xlsx', 'asdict')]
        for i in range(n):
            for j in range(n):
                for k in (enders if tier == 'quick' else range(n)):
                    out.append([i, j, k])
        return out

    def init_worker(self):
        self.tmp = tempfile.mkdtemp(prefix='c11-')

    def execute(self, case):
        import andes
        from vmc import systems
        out = Outcome()
        ss = systems.load_case('5bus/pjm5bus.json')
        systems.quiet_tds(ss)
        seq = [OPS[i] for i in case]
        # reference: (model, param, idx) -> dict(vin, v)
        ref = {}

        def cell(model, pname, idx):
            key = (model, pname, idx)
            if key not in ref:
                mdl = getattr(ss, model)
                uid = mdl.idx2uid(idx)
                p = mdl.__dict__[pname]
                ref[key] = dict(vin=float(p.vin[uid]), v=float(p.v[uid]), k=float(p.pu_coeff[uid]))
            return ref[key]
        for m, p, i, _ in PARAMS:
            cell(m, p, i)
        seen = set()

        def bad(sig, msg):
            if sig not in seen:
                seen.add(sig)
                out.bad(sig, msg)
        state = dict(pflow=False, tds=False, altered=False, tf=0.0)
        log = []

        def audit(where):
            for (model, pname, idx), r in ref.items():
                mdl = getattr(ss, model)
                uid = mdl.idx2uid(idx)
                p = mdl.__dict__[pname]
                if abs(p.vin[uid] - r['vin']) > 1e-12 * max(1, abs(r['vin'])):
                    bad(f'vin_wrong_after:{where}', f'after {log}: {model}.{pname}[{idx}].vin = {p.vin[uid]!r}, reference {r["vin"]!r}')
                if abs(p.v[uid] - r['v']) > 1e-12 * max(1, abs(r['v'])):
                    bad(f'v_wrong_after:{where}', f'after {log}: {model}.{pname}[{idx}].v = {p.v[uid]!r}, reference {r["v"]!r}')
                if abs(p.pu_coeff[uid] - r['k']) > 1e-12:
                    bad(f'pu_coeff_changed_after:{where}', f'after {log}: {model}.{pname}[{idx}].pu_coeff = {p.pu_coeff[uid]!r}')

        def check_export(data, where):
            """data: dict model -> {param: list} of input-base values."""
            for (model, pname, idx), r in ref.items():
                rows = data.get(model)
                if rows is None:
                    bad(f'export_missing_model:{where}', f'{model} missing from {where}')
                    continue
                ids = list(rows['idx'])
                got = float(rows[pname][ids.index(idx)])
                if abs(got - r['vin']) > 1e-9 * max(1, abs(r['vin'])):
                    bad(f'export_holds_stale_value:{where}', f'after {log}: {where} has {model}.{pname}[{idx}] = {got!r}, '
                        f'current input value {r["vin"]!r}')
        try:
            for op in seq:
                log.append(op)
                if op.startswith(('alter', 'galter', 'set')):
                    if op in ('alterM', 'altervinM'):
                        model, pname, idx, val = PARAMS[4]
                    elif op == 'alter1':
                        model, pname, idx, val = PARAMS[1]
                    else:
                        model, pname, idx, val = PARAMS[0]
                    r = cell(model, pname, idx)
                    mdl = getattr(ss, model)
                    if op in ('alter0', 'alter1', 'alterM'):
                        mdl.alter(pname, idx, val)
                        r['vin'], r['v'] = val, val * r['k']
                    elif op in ('altervin0', 'altervinM'):
                        mdl.alter(pname, idx, val * 1.1, attr='vin')
                        r['v'], r['vin'] = val * 1.1, val * 1.1 / r['k']
                    elif op == 'galter0':
                        ss.groups[mdl.group].alter(pname, idx, val * 0.9)
                        r['vin'], r['v'] = val * 0.9, val * 0.9 * r['k']
                    elif op == 'set0':
                        mdl.set(pname, idx, 'v', val * 1.2)
                        r['v'] = val * 1.2
                    state['altered'] = True
                    if state['tds'] and pname == 'M':
                        a = int(mdl.omega.a[mdl.idx2uid(idx)])
                        if abs(ss.dae.Tf[a] - r['v']) > 1e-12 or abs(ss.TDS.Teye[a, a] - r['v']) > 1e-12:
                            bad('time_constant_not_propagated', f'after {log}: GENCLS.M = {r["v"]}, dae.Tf = {ss.dae.Tf[a]}, '
                                f'Teye = {ss.TDS.Teye[a, a]}')
                elif op == 'pflow':
                    if state['tds']:
                        continue
                    ok = ss.PFlow.run()
                    state['pflow'] = bool(ok)
                    if ok:
                        self.balance(ss, bad, log)
                elif op == 'tdsinit':
                    if not state['pflow']:
                        ss.PFlow.run()
                        state['pflow'] = True
                    ss.TDS.init()
                    state['tds'] = True
                    mdl = ss.GENCLS
                    for (model, pname, idx), r in ref.items():
                        if pname == 'M':
                            a = int(mdl.omega.a[mdl.idx2uid(idx)])
                            if abs(ss.dae.Tf[a] - r['v']) > 1e-12:
                                bad('time_constant_not_in_Tf', f'after {log}: GENCLS.M[{idx}] = {r["v"]}, dae.Tf = {ss.dae.Tf[a]}')
                elif op == 'tdsrun':
                    if not state['pflow']:
                        ss.PFlow.run()
                        state['pflow'] = True
                    state['tf'] += 0.1
                    ss.TDS.config.tf = state['tf']
                    ss.TDS.run(no_summary=True)
                    state['tds'] = True
                elif op == 'reset':
                    if state['tds']:
                        continue           # documented: reset after dynamic initialisation is refused
                    ss.reset()
                    systems.quiet_tds(ss)
                    state['pflow'] = False
                    for r in ref.values():
                        r['v'] = r['vin'] * r['k']       # set() changes are dropped, inputs are restored
                elif op == 'json':
                    buf = io.StringIO()
                    andes.io.json.write(ss, buf)
                    data = json.loads(buf.getvalue())
                    conv = {m: {k: [row[k] for row in rows] for k in rows[0]} for m, rows in data.items() if rows}
                    check_export(conv, 'json')
                elif op == 'xlsx':
                    path = os.path.join(self.tmp, f'c11-{os.getpid()}.xlsx')
                    andes.io.xlsx.write(ss, path, overwrite=True)
                    import pandas as pd
                    book = pd.read_excel(path, sheet_name=None, index_col=0)
                    conv = {m: {c: list(df[c]) for c in df.columns} for m, df in book.items()}
                    check_export(conv, 'xlsx')
                    os.remove(path)
                elif op == 'asdict':
                    data = ss.as_dict(vin=True)
                    conv = {m: {k: list(v) for k, v in d.items()} for m, d in data.items()}
                    check_export(conv, 'as_dict')
                audit(op)
        except Exception as e:
            import traceback
            tb = traceback.extract_tb(e.__traceback__)
            bad(f'raises:{type(e).__name__}@{tb[-1].name if tb else "?"}', f'after {log}: {type(e).__name__}: {e}')
        out.obs = dict(seq=seq, ref={f'{m}.{p}.{i}': [round(r['vin'], 9), round(r['v'], 9)] for (m, p, i), r in ref.items()})
        out.transitions = len(seq)
        out.nontrivial = state['altered']
        return out

    @staticmethod
    def balance(ss, bad, log):
        """Power balance of the INPUT data at the reported solution (alterations must be in effect)."""
        from vmc.refs.acflow import Net
        d = ss.as_dict(vin=True)
        net = Net(float(ss.config.mva))

        def rows(model):
            dd = d.get(model)
            if dd is None:
                return []
            n = len(dd['idx'])
            return [{k: (v[i] if hasattr(v, '__len__') and not isinstance(v, str) else v) for k, v in dd.items()} for i in range(n)]
        for b in rows('Bus'):
            net.bus[b['idx']] = float(b['Vn'])
        net.lines = [{k: (float(v) if k not in ('idx', 'name', 'bus1', 'bus2', 'owner', 'xcoord', 'ycoord') and v is not None else v)
                      for k, v in r.items()} for r in rows('Line')]
        # live values for parameters changed through set() are not inputs: use vin for everything (set() on p0 is judged separately)
        net.pq = [dict(bus=r['bus'], p0=float(r['p0']), q0=float(r['q0']), u=float(r['u'])) for r in rows('PQ')]
        net.shunt = [dict(bus=r['bus'], g=float(r['g']), b=float(r['b']), Sn=float(r['Sn']), Vn=float(r['Vn']), u=float(r['u']))
                     for r in rows('Shunt')]
        V = {b: ss.Bus.v.v[i] * np.exp(1j * ss.Bus.a.v[i]) for i, b in enumerate(ss.Bus.idx.v)}
        gen = {}
        for mdl in (ss.PV, ss.Slack):
            for i in range(mdl.n):
                if mdl.u.v[i]:
                    gen[mdl.bus.v[i]] = gen.get(mdl.bus.v[i], 0j) + mdl.p.v[i] + 1j * mdl.q.v[i]
        # loads as the model uses them now (system-base v), to separate "input data" from live set() values
        for k, r in enumerate(net.pq):
            r['p0'] = float(ss.PQ.p0.v[k])
            r['q0'] = float(ss.PQ.q0.v[k])
        mis, allow = net.mismatch(V, gen)
        worst = max(mis, key=lambda b: abs(mis[b]) - allow[b])
        if abs(mis[worst]) > 1e-5 + allow[worst]:
            bad('altered_value_not_in_effect_in_power_flow', f'after {log}: power balance from the current input data violated at bus '
                f'{worst} by {abs(mis[worst]):.3e}')


class TimeConstants(Part):
    """An altered time constant reaches the mass matrix entries of every state that uses it."""
    name = 'tconst'
    chunk = 1
    timeout = 600.0
    nproc = 8

    def describe(self, tier):
        return (f'{len(COEFF_CASES)} stock cases after dynamic initialisation: EVERY parameter that is the time constant of >= 1 '
                f'state of EVERY populated model is altered (x1.5, through alter / set / Group.alter in turn); dae.Tf and TDS.Teye of '
                f'all states using it must hold the new value')

    def cases(self, tier):
        return [dict(case=c, how=h) for c in COEFF_CASES for h in ('alter', 'set', 'galter')]

    def execute(self, case):
        from vmc import systems
        out = Outcome()
        try:
            ss = systems.load_case(case['case'])
            systems.quiet_tds(ss)
            if not ss.PFlow.run():
                out.obs = dict(skipped='power flow failed')
                out.nontrivial = False
                return out
            ss.TDS.init()
        except Exception as e:
            out.obs = dict(skipped=type(e).__name__)
            out.nontrivial = False
            return out
        n = 0
        seen = set()
        for mdl in ss.exist.tds.values():
            if mdl.n == 0:
                continue
            users = {}
            for st in mdl.states.values():
                tc = getattr(st, 't_const', None)
                if tc is not None and hasattr(tc, 'vin') and tc.vin is not None and tc.name in mdl.__dict__ and len(st.a) == mdl.n:
                    users.setdefault(tc.name, []).append(st)
            for pname, states in users.items():
                p = mdl.__dict__[pname]
                idx = mdl.idx.v[0]
                new_in = float(p.vin[0]) * 1.5 + 0.01
                try:
                    if case['how'] == 'alter':
                        mdl.alter(pname, idx, new_in)
                        exp = new_in * float(p.pu_coeff[0])
                    elif case['how'] == 'galter':
                        ss.groups[mdl.group].alter(pname, idx, new_in)
                        exp = new_in * float(p.pu_coeff[0])
                    else:
                        exp = new_in
                        mdl.set(pname, idx, 'v', new_in)
                except Exception as e:
                    sig = f'alter_raises:{type(e).__name__}'
                    if sig not in seen:
                        seen.add(sig)
                        out.bad(sig, f'{mdl.class_name}.{pname}: {type(e).__name__}: {e}')
                    continue
                n += 1
                for k, st in enumerate(states):
                    a = int(st.a[0])
                    if abs(ss.dae.Tf[a] - exp) > 1e-12 * max(1, abs(exp)) or abs(ss.TDS.Teye[a, a] - exp) > 1e-12 * max(1, abs(exp)):
                        sig = f'time_constant_not_propagated:{"first" if k == 0 else "further"}_state'
                        if sig not in seen:
                            seen.add(sig)
                            out.bad(sig, f'{case["case"]}: {mdl.class_name}.{pname} altered to {exp!r} via {case["how"]}: state '
                                    f'{st.name} has dae.Tf = {ss.dae.Tf[a]!r}, Teye = {ss.TDS.Teye[a, a]!r} '
                                    f'({len(states)} states use this parameter)')
        out.obs = dict(case=case['case'], how=case['how'], altered=n)
        out.transitions = n
        out.nontrivial = n > 0
        return out


def parts(tier):
    return [Coeff(), History(tier), TimeConstants()]


def run(run, only=None):
    for p in parts(run.tier):
        if only and p.name != only:
            continue
        run.run_part(p, audit=3)
    run.assumptions += ['alter(attr="vin") is documented (by its example) to take the value in the system base',
                        'System.reset() after dynamic initialisation is documented as refused and is skipped in histories',
                        'set() is documented not to touch the input value; reset() therefore drops it']
    rule = ('all flagged parameters of all populated models in 19 stock cases x base variants against textbook ratios; all '
            'operation sequences up to the depth bound on the 5-bus case against a reference dict; non-trivial = sequence with '
            '>= 1 alteration / case with >= 1 flagged value')
    return run.finish(rule)
