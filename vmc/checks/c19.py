"""
C19 - cross-references between devices are resolved completely or rejected.

registry : every history of <= 3 (4) ``System.add`` calls into the two-model group StaticGen (PV, Slack) from an
           index alphabet {auto, 1, 2.0, '1', 'PV_1', 'PV_2', 'Slack_1', nan}; after every add and after
           setup the group registry is compared with a dict-based reference; then every lookup
           (idx2model, idx2uid, get, find_idx on model and group, allow_none / allow_all on and off).
backref  : every assignment of <= 3 referrers (synchronous machines -> static generators, exciters /
           governors -> machines, buses -> areas) to targets; BackRef lists = referrers, once each.
dangling : every single dangling reference (missing bus / gen / syn / pq) must be reported, never rebound.
finder   : DeviceFinder users (FLoad.busf -> BusFreq): every assignment of busf in {None, valid on same bus,
           valid on other bus, invalid} to <= 3 loads on two buses, with / without a pre-existing BusFreq.
"""

import itertools
import math

import numpy as np

from vmc.core import Outcome, Part
from vmc import systems

NAN = float('nan')
IDX_ALPHABET = [None, 1, 2.0, '1', 'PV_1', 'PV_2', 'Slack_1', 'nan']


def _idx(v):
    return NAN if v == 'nan' else v


class Registry(Part):
    name = 'registry'
    chunk = 16
    timeout = 120.0
    nproc = 8

    def __init__(self, tier='quick'):
        self.tier = tier

    def describe(self, tier):
        d = 3 if tier == 'quick' else 4
        return (f'all add-histories of depth <= {d} over models {{PV, Slack}} x idx alphabet {IDX_ALPHABET} on buses '
                f'{{1,2}} (bus = position parity), then setup and all lookups')

    def cases(self, tier):
        d = 3 if tier == 'quick' else 4
        ops = [(m, i) for m in ('PV', 'Slack') for i in range(len(IDX_ALPHABET))]
        if tier == 'quick':
            # depth 3 over the full alphabet = 16^3; keep every op at depth <= 2 and the first two
            # positions free at depth 3 with the third drawn from the colliding half of the alphabet
            third = [(m, i) for m in ('PV', 'Slack') for i in (0, 1, 4)]
            out = [[list(o)] for o in ops]
            out += [[list(a), list(b)] for a in ops for b in ops]
            out += [[list(a), list(b), list(c)] for a in ops for b in ops for c in third]
            return out
        out = []
        for r in range(1, d + 1):
            sub = ops if r <= 3 else [(m, i) for m in ('PV', 'Slack') for i in (0, 1, 4, 6)]
            for h in itertools.product(sub, repeat=r):
                out.append([list(o) for o in h])
        return out

    def execute(self, case):
        import andes
        out = Outcome()
        ss = andes.System(no_output=True, default_config=True)
        ss.add('Bus', dict(idx=1, Vn=110))
        ss.add('Bus', dict(idx=2, Vn=110))
        ref = {}            # idx -> (model, bus, p0)
        order = []
        log = []
        for k, (model, ii) in enumerate(case):
            want = _idx(IDX_ALPHABET[ii])
            bus = 1 + k % 2
            p0 = 0.1 * (k + 1)
            before = set(ref)
            try:
                got = ss.add(model, dict(idx=want, bus=bus, p0=p0, v0=1.0))
            except KeyError as e:
                # documented rejection of a duplicate: registry must be unchanged
                log.append(('reject', model, IDX_ALPHABET[ii]))
                if set(ss.StaticGen._idx2model) != before:
                    out.bad('rejected_add_changed_registry', f'add({model}, idx={want!r}) raised {e} but the '
                            f'group registry changed')
                if getattr(ss, model).n != sum(1 for i in ref if ref[i][0] == model):
                    out.bad('rejected_add_left_device_in_model', f'add({model}, idx={want!r}) raised but the model '
                            f'kept the device')
                continue
            log.append((model, IDX_ALPHABET[ii], got))
            explicit = not (want is None or (isinstance(want, float) and math.isnan(want)))
            if got in before:
                out.bad('idx_not_unique', f'add({model}, idx={want!r}) returned {got!r} which already exists')
            if explicit and want not in before and not (got == want and type(got) is type(want)):
                out.bad('free_explicit_idx_not_honoured', f'add({model}, idx={want!r}) returned {got!r}')
            ref[got] = (model, bus, p0)
            order.append(got)
        # registry vs reference
        grp = ss.StaticGen
        if list(grp._idx2model.keys()) != order:
            out.bad('group_registry_differs', f'group idx list {list(grp._idx2model.keys())} vs adds {order}')
        for model in ('PV', 'Slack'):
            mine = [i for i in order if ref[i][0] == model]
            if list(getattr(ss, model).idx.v) != mine:
                out.bad('model_idx_list_differs', f'{model}.idx.v={list(getattr(ss, model).idx.v)} vs {mine}')
        try:
            ok = ss.setup()
        except Exception as e:
            out.bad(f'setup_raises:{type(e).__name__}', f'setup raised {e} after history {log}')
            out.obs = dict(log=log, exc=type(e).__name__)
            return out
        if not ok:
            out.bad('setup_failed_on_legal_history', f'setup returned False after history {log}')
        # lookups
        for i in order:
            model, bus, p0 = ref[i]
            try:
                if grp.idx2model(i).class_name != model:
                    out.bad('idx2model_wrong', f'{i!r} -> {grp.idx2model(i).class_name}, added to {model}')
                if grp.idx2uid(i) != order.index(i):
                    out.bad('group_idx2uid_wrong', f'{i!r}')
                if abs(float(grp.get('p0', i, 'v')) - p0) > 1e-12 or int(grp.get('bus', i, 'v')) != bus:
                    out.bad('group_get_wrong_device', f'group.get for {i!r} returned p0={grp.get("p0", i, "v")}, '
                            f'bus={grp.get("bus", i, "v")}; added p0={p0}, bus={bus}')
                mdl = getattr(ss, model)
                if abs(float(mdl.get('p0', i, 'v')) - p0) > 1e-12:
                    out.bad('model_get_wrong_device', f'{model}.get for {i!r}')
            except Exception as e:
                out.bad(f'lookup_raises:{type(e).__name__}', f'lookup of existing idx {i!r} raised {e}')
        for bus in (1, 2, 3):
            exp_all = [i for i in order if ref[i][1] == bus]
            exp_by_model = {m: [i for i in exp_all if ref[i][0] == m] for m in ('PV', 'Slack')}
            # group, all matches
            try:
                got = grp.find_idx(keys='bus', values=[bus], allow_none=True, default=None, allow_all=True)[0]
            except Exception as e:
                got = f'raised {type(e).__name__}'
            want = sorted(map(repr, exp_all)) if exp_all else [repr(None)]
            if not isinstance(got, list) or sorted(map(repr, got)) != want:
                out.bad('group_find_idx_all_wrong', f'StaticGen.find_idx(bus={bus}, allow_all) = {got}, devices on '
                        f'that bus: {exp_all}')
            # group, first match / not found
            try:
                g1 = grp.find_idx(keys='bus', values=[bus], allow_none=False)
                if not exp_all:
                    out.bad('missing_value_found', f'StaticGen.find_idx(bus={bus}) returned {g1} but no device is there')
                elif g1[0] not in exp_all:
                    out.bad('group_find_idx_wrong_device', f'StaticGen.find_idx(bus={bus}) = {g1}, expected one of {exp_all}')
            except IndexError:
                if exp_all:
                    out.bad('existing_value_not_found', f'StaticGen.find_idx(bus={bus}) raised, devices {exp_all} exist')
            for m in ('PV', 'Slack'):
                mdl = getattr(ss, m)
                try:
                    gm = mdl.find_idx(keys='bus', values=[bus], allow_none=True, default=None, allow_all=True)[0]
                except Exception as e:
                    gm = f'raised {type(e).__name__}'
                wantm = exp_by_model[m] if exp_by_model[m] else [None]
                if gm != wantm:
                    out.bad('model_find_idx_all_wrong', f'{m}.find_idx(bus={bus}, allow_all) = {gm} vs {wantm}')
                # two-key query
                for i in exp_by_model[m]:
                    try:
                        g2 = mdl.find_idx(keys=['bus', 'p0'], values=[[bus], [ref[i][2]]])
                        if g2 != [i]:
                            out.bad('two_key_find_wrong', f'{m}.find_idx(bus,p0) = {g2} vs {[i]}')
                    except Exception as e:
                        out.bad(f'two_key_find_raises:{type(e).__name__}', str(e))
        out.obs = dict(log=log, order=[repr(i) for i in order])
        out.transitions = len(case) + 1
        out.nontrivial = len(order) >= 2
        return out


# ------------------------------------------------------------------ back references

def net(ss, nbus=3, areas=None):
    areas = areas if areas is not None else [1 + k % 2 for k in range(nbus)]
    for a in (1, 2):
        ss.add('Area', dict(idx=a))
    for k in range(nbus):
        ss.add('Bus', dict(idx=k + 1, Vn=110, area=areas[k]))
    for k in range(nbus - 1):
        ss.add('Line', dict(idx=f'L{k}', bus1=k + 1, bus2=k + 2, x=0.1, r=0.01, Vn1=110, Vn2=110))
    ss.add('Slack', dict(idx='S', bus=1, Vn=110))
    ss.add('PV', dict(idx='G2', bus=2, p0=0.3, Vn=110))
    ss.add('PV', dict(idx='G3', bus=3, p0=0.3, Vn=110))
    ss.add('PQ', dict(idx='P2', bus=2, p0=0.4, q0=0.1, Vn=110))
    ss.add('PQ', dict(idx='P3', bus=3, p0=0.4, q0=0.1, Vn=110))


class BackRefs(Part):
    name = 'backref'
    chunk = 8
    timeout = 120.0
    nproc = 8

    def describe(self, tier):
        return ('3-bus net, areas 1/2; machines (GENCLS / GENROU mixed) on static generators {S, G2, G3}: all assignments '
                'of <= 3 machines; exciters (EXDC2 / IEEEX1) and governors (TGOV1) on machines: all assignments of <= 3; '
                'optional links (bus -> area, machine -> COI) unset / set in every order over 3 devices; BackRef lists on StaticGen, SynGen, Area, COI compared with the reference multiset after setup and after each of two '
                'System.reset() calls')

    def cases(self, tier):
        out = []
        gens = ['S', 'G2', 'G3']
        for n in range(0, 4):
            for tgt in itertools.product(gens, repeat=n):
                # at most one machine per static generator with full share is realistic, but the
                # registry logic is independent of that: allow any assignment
                out.append(dict(syn=list(tgt), exc=[], gov=[]))
        for tgt in itertools.product(gens, repeat=2):
            for exc in itertools.product([0, 1], repeat=2):
                for gov in itertools.product([0, 1, None], repeat=2):
                    out.append(dict(syn=list(tgt), exc=list(exc), gov=list(gov)))
        # optional links left unset for some devices and set for others, in every order: bus -> area, machine -> COI
        for areas in itertools.product([None, 1, 2], repeat=3):
            out.append(dict(syn=['S', 'G2'], exc=[], gov=[], areas=list(areas)))
        for n in (1, 2, 3):
            for coi in itertools.product([None, 'C1'], repeat=n):
                out.append(dict(syn=gens[:n], exc=[], gov=[], coi=list(coi)))
                if n == 3:
                    out.append(dict(syn=gens[:n], exc=[], gov=[], coi=list(coi), areas=[None, 2, 1]))
        return out

    def execute(self, case):
        import andes
        out = Outcome()
        ss = andes.System(no_output=True, default_config=True)
        areas = case.get('areas') or [1, 2, 1]
        net(ss, areas=areas)
        bus_of = {'S': 1, 'G2': 2, 'G3': 3}
        syn_ids = []
        coi = case.get('coi') or [None] * len(case['syn'])
        if case.get('coi'):
            ss.add('COI', dict(idx='C1'))
        for k, g in enumerate(case['syn']):
            model = 'GENCLS' if k % 2 == 0 else 'GENROU'
            idx = ss.add(model, dict(idx=f'M{k}', bus=bus_of[g], gen=g, Vn=110, M=6.0, D=1.0, coi=coi[k],
                                     gammap=1.0 / max(1, case['syn'].count(g)),
                                     gammaq=1.0 / max(1, case['syn'].count(g))))
            syn_ids.append(idx)
        exc_ref, gov_ref = {}, {}
        for k, s in enumerate(case['exc']):
            model = 'EXDC2' if k % 2 == 0 else 'IEEEX1'
            try:
                idx = ss.add(model, dict(idx=f'E{k}', syn=syn_ids[s]))
            except IndexError:
                continue        # documented rejection: one exciter per machine
            exc_ref.setdefault(syn_ids[s], []).append(idx)
        for k, s in enumerate(case['gov']):
            if s is None:
                continue
            try:
                idx = ss.add('TGOV1', dict(idx=f'T{k}', syn=syn_ids[s]))
            except IndexError:
                continue        # documented rejection: one governor per machine
            gov_ref.setdefault(syn_ids[s], []).append(idx)
        try:
            ok = ss.setup()
        except Exception as e:
            out.bad(f'setup_raises:{type(e).__name__}', f'{e}')
            out.obs = dict(exc=type(e).__name__)
            return out
        got = {}

        def compare(stage):
            sfx = '' if stage == 'setup' else ':' + stage
            # StaticGen.SynGen back reference
            exp = {g: [m for m, t in zip(syn_ids, case['syn']) if t == g] for g in bus_of}
            for g in bus_of:
                uid = ss.StaticGen.idx2uid(g)
                lst = list(ss.StaticGen.SynGen.v[uid])
                got[g] = lst
                if sorted(lst) != sorted(exp[g]):
                    out.bad('backref_group_wrong:StaticGen.SynGen' + sfx, f'{g}: {lst} vs referrers {exp[g]}')
                mdl = ss.StaticGen.idx2model(g)
                lst2 = list(mdl.SynGen.v[mdl.idx2uid(g)])
                if sorted(lst2) != sorted(exp[g]):
                    out.bad('backref_model_wrong:PV.SynGen' + sfx, f'{mdl.class_name} {g}: {lst2} vs referrers {exp[g]}')
            for m in syn_ids:
                uid = ss.SynGen.idx2uid(m)
                e = list(ss.SynGen.Exciter.v[uid])
                t = list(ss.SynGen.TurbineGov.v[uid])
                if sorted(e) != sorted(exc_ref.get(m, [])):
                    out.bad('backref_group_wrong:SynGen.Exciter' + sfx, f'{m}: {e} vs {exc_ref.get(m, [])}')
                if sorted(t) != sorted(gov_ref.get(m, [])):
                    out.bad('backref_group_wrong:SynGen.TurbineGov' + sfx, f'{m}: {t} vs {gov_ref.get(m, [])}')
            # Area.Bus
            for a in (1, 2):
                buses = [k + 1 for k in range(3) if areas[k] == a]
                lst = list(ss.Area.Bus.v[ss.Area.idx2uid(a)])
                if sorted(lst) != buses:
                    out.bad('backref_model_wrong:Area.Bus' + sfx, f'area {a}: {lst} vs the buses that name it {buses} '
                            f'(bus areas {areas})')
            if case.get('coi'):
                exp_c = [m for m, c in zip(syn_ids, coi) if c == 'C1']
                lst = list(ss.COI.SynGen.v[ss.COI.idx2uid('C1')])
                if sorted(lst) != sorted(exp_c):
                    out.bad('backref_model_wrong:COI.SynGen' + sfx, f'COI C1: {lst} vs the machines that name it {exp_c} '
                            f'(machine coi fields {coi})')
            # external parameter resolution follows the index field
            for m, g in zip(syn_ids, case['syn']):
                mdl = ss.SynGen.idx2model(m)
                uid = mdl.idx2uid(m)
                p0s = float(mdl.p0s.v[uid]) if hasattr(mdl, 'p0s') and len(np.atleast_1d(mdl.p0s.v)) > uid else None

        compare('setup')
        # the same System set up again (documented: System.reset): every referrer still exactly once
        for stage in ('reset', 'reset2'):
            try:
                ss.reset()
            except Exception as e:
                out.bad(f'reset_raises:{type(e).__name__}', f'{stage}: {e}')
                break
            compare(stage)

        out.obs = dict(got=got, ok=bool(ok))
        out.nontrivial = len(case['syn']) > 0
        return out


class Dangling(Part):
    name = 'dangling'
    chunk = 2
    timeout = 120.0
    nproc = 8

    REFS = [('PQ', dict(idx='PX', bus=9, p0=0.1, q0=0.0), 'bus'),
            ('PV', dict(idx='GX', bus=9, p0=0.1), 'bus'),
            ('Line', dict(idx='LX', bus1=1, bus2=9, x=0.1), 'bus2'),
            ('Shunt', dict(idx='SX', bus=9, b=0.1), 'bus'),
            ('GENCLS', dict(idx='MX', bus=2, gen='G9', M=6.0), 'gen'),
            ('GENCLS', dict(idx='MX', bus=9, gen='G2', M=6.0), 'bus'),
            ('EXDC2', dict(idx='EX', syn='M9'), 'syn'),
            ('TGOV1', dict(idx='TX', syn='M9'), 'syn'),
            ('FLoad', dict(idx='FX', pq='P9'), 'pq'),
            ('Toggle', dict(idx='TGX', model='Line', dev='L9', t=0.1), 'dev'),
            ('BusFreq', dict(idx='BFX', bus=9), 'bus'),
            ('Fault', dict(idx='FAX', bus=9, tf=0.1, tc=0.2), 'bus')]

    def describe(self, tier):
        return (f'{len(self.REFS)} reference kinds, each once dangling in an otherwise valid 3-bus dynamic system; '
                f'add / setup / PFlow.run / TDS.init must report (raise, return False, non-zero exit code)')

    def cases(self, tier):
        return list(range(len(self.REFS)))

    def execute(self, case):
        import andes
        out = Outcome()
        model, params, field = self.REFS[case]
        ss = andes.System(no_output=True, default_config=True)
        net(ss)
        ss.add('GENCLS', dict(idx='M2', bus=2, gen='G2', Vn=110, M=6.0))
        stages = []
        reported = False
        try:
            ss.add(model, dict(params))
            stages.append('add')
            ok = ss.setup()
            stages.append(f'setup={ok}')
            if not ok or ss.exit_code != 0:
                reported = True
            if not reported:
                ok = ss.PFlow.run()
                stages.append(f'pflow={ok}')
                systems.quiet_tds(ss)
                ss.TDS.init()
                stages.append(f'tdsinit={ss.TDS.test_ok}')
                ss.TDS.config.tf = 0.3
                r = ss.TDS.run(no_summary=True)
                stages.append(f'tds={r}')
                if not ok or not r or ss.exit_code != 0:
                    reported = True
        except Exception as e:
            stages.append(f'raised {type(e).__name__}')
            reported = True
        if not reported:
            out.bad(f'dangling_reference_silently_accepted:{model}.{field}',
                    f'{model}.{field} points to a non-existent device, yet every stage succeeded: {stages}')
        out.obs = dict(stages=stages)
        return out


class Finder(Part):
    name = 'finder'
    chunk = 4
    timeout = 120.0
    nproc = 8

    def describe(self, tier):
        return ('FLoad devices on PQ loads of buses 2/3; busf in {None, valid same bus, valid other bus, invalid}^k for '
                'k <= 3 loads; BusFreq pre-existing on bus 3 or nowhere')

    def cases(self, tier):
        out = []
        opts = ['none', 'same', 'other', 'invalid']
        for pre in (False, True):
            for k in (1, 2, 3):
                for combo in itertools.product(opts, repeat=k):
                    for buses in itertools.product([2, 3], repeat=k):
                        if not pre and ('same' in combo or 'other' in combo):
                            continue
                        out.append(dict(pre=pre, busf=list(combo), bus=list(buses)))
        return out

    def execute(self, case):
        import andes
        out = Outcome()
        ss = andes.System(no_output=True, default_config=True)
        net(ss)
        pre = {}
        if case['pre']:
            ss.add('BusFreq', dict(idx='BF2', bus=2))
            ss.add('BusFreq', dict(idx='BF3', bus=3))
            pre = {2: 'BF2', 3: 'BF3'}
        for k, (bf, bus) in enumerate(zip(case['busf'], case['bus'])):
            val = {'none': None, 'same': pre.get(bus), 'other': pre.get(5 - bus), 'invalid': 'nope'}[bf]
            # several FLoad on one PQ need shares; use distinct loads when possible
            ss.add('FLoad', dict(idx=f'F{k}', pq=f'P{bus}', busf=val, kp=10, kq=10))
        try:
            ok = ss.setup()
        except Exception as e:
            out.bad(f'setup_raises:{type(e).__name__}', str(e))
            out.obs = dict(exc=type(e).__name__)
            return out
        found = list(ss.FLoad.busfreq.v)
        bfbus = {i: b for i, b in zip(ss.BusFreq.idx.v, ss.BusFreq.bus.v)}
        created = [i for i in ss.BusFreq.idx.v if i not in ('BF2', 'BF3')]
        for k, (bf, bus) in enumerate(zip(case['busf'], case['bus'])):
            f = found[k]
            if f not in bfbus:
                out.bad('finder_returns_nonexistent', f'FLoad F{k}: busfreq={f!r} not a BusFreq device')
                continue
            if bf == 'other':
                if f != pre[5 - bus]:
                    out.bad('finder_overrides_valid_choice', f'F{k}: given {pre[5 - bus]}, resolved {f}')
            elif bfbus[f] != bus:
                out.bad('finder_links_wrong_target', f'F{k} on bus {bus} (busf={bf}): resolved {f} which measures '
                        f'bus {bfbus[f]}')
        # created at most once per bus
        cb = [bfbus[i] for i in created]
        if len(cb) != len(set(cb)):
            out.bad('helper_created_twice', f'created {created} on buses {cb}')
        need = {bus for bf, bus in zip(case['busf'], case['bus']) if bf in ('none', 'invalid') and bus not in pre}
        if set(cb) != need:
            out.bad('helper_creation_wrong', f'created on {sorted(cb)}, needed on {sorted(need)}')
        # the external variable follows the resolved device
        try:
            ss.PFlow.run()
            systems.quiet_tds(ss)
            ss.TDS.init()
            for k, f in enumerate(found):
                if f in bfbus:
                    a_dev = int(ss.BusFreq.f.a[ss.BusFreq.idx2uid(f)])
                    if int(ss.FLoad.f.a[k]) != a_dev:
                        out.bad('external_variable_not_of_resolved_device', f'F{k}: f address {ss.FLoad.f.a[k]} vs '
                                f'{a_dev} of {f}')
        except Exception as e:
            out.bad(f'init_raises:{type(e).__name__}', str(e))
        out.obs = dict(found=found, created=created)
        out.nontrivial = True
        return out


class FindIdx(Part):
    """Lookups by parameter value through a group whose models share buses (several models match one query)."""
    name = 'findidx'
    chunk = 1
    timeout = 300.0
    nproc = 8

    GROUPS = ['StaticGen', 'StaticShunt', 'FreqMeasurement']

    def describe(self, tier):
        return (f'3-bus system in which two models of one group sit on the same bus (Slack+PV, Shunt+ShuntSw, BusFreq+BusROCOF): '
                f'group.find_idx and model.find_idx by bus for ALL query tuples of length <= 3 over buses (1, 2, 3, missing) x '
                f'allow_all x allow_none, groups {self.GROUPS}: one answer per query, each answer a device holding the value, '
                f'allow_all = all such devices, a missing value raises unless allowed')

    def cases(self, tier):
        return [dict(group=g, allow_all=a, allow_none=n) for g in self.GROUPS for a in (False, True) for n in (False, True)]

    def execute(self, case):
        import andes
        out = Outcome()
        seen = set()

        def bad(sig, msg):
            if sig not in seen:
                seen.add(sig)
                out.bad(sig, msg)
        ss = andes.System(no_output=True, default_config=True)
        for b in (1, 2, 3):
            ss.add('Bus', dict(idx=b, name=f'B{b}', Vn=110.0))
        ss.add('Line', dict(idx='L1', bus1=1, bus2=2, x=0.1, Vn1=110.0, Vn2=110.0))
        ss.add('Line', dict(idx='L2', bus1=2, bus2=3, x=0.1, Vn1=110.0, Vn2=110.0))
        ss.add('Slack', dict(idx='S1', bus=1, Vn=110.0, v0=1.0))
        ss.add('PV', dict(idx='G1', bus=1, Vn=110.0, p0=0.1, v0=1.0))
        ss.add('PV', dict(idx='G2', bus=2, Vn=110.0, p0=0.1, v0=1.0))
        ss.add('PV', dict(idx='G2b', bus=2, Vn=110.0, p0=0.1, v0=1.0))
        ss.add('PQ', dict(idx='P3', bus=3, Vn=110.0, p0=0.3, q0=0.1))
        ss.add('Shunt', dict(idx='H2', bus=2, Vn=110.0, b=0.02))
        ss.add('ShuntSw', dict(idx='W2', bus=2, Vn=110.0, gs=[0.0], bs=[0.01], ns=[1]))
        ss.add('Shunt', dict(idx='H3', bus=3, Vn=110.0, b=0.02))
        ss.add('BusFreq', dict(idx='F1', bus=1))
        ss.add('BusROCOF', dict(idx='R1', bus=1))
        ss.add('BusFreq', dict(idx='F3', bus=3))
        ss.setup()
        grp = ss.groups[case['group']]
        holders = {}
        for mdl in grp.models.values():
            for k in range(mdl.n):
                holders.setdefault(mdl.bus.v[k], []).append(mdl.idx.v[k])
        n = 0
        for r in (1, 2, 3):
            for q in itertools.product((1, 2, 3, 9), repeat=r):
                n += 1
                missing = [v for v in q if v not in holders]
                try:
                    got = grp.find_idx('bus', list(q), allow_none=case['allow_none'], allow_all=case['allow_all'])
                except IndexError:
                    if not missing or case['allow_none']:
                        bad(f'find_idx_raises_on_present_value:{case["group"]}', f'{case}: query {q} raised IndexError')
                    continue
                except Exception as e:
                    bad(f'find_idx_raises:{type(e).__name__}:{case["group"]}', f'{case}: query {q}: {type(e).__name__}: {e}')
                    continue
                if missing and not case['allow_none']:
                    bad(f'missing_value_not_reported:{case["group"]}', f'{case}: query {q} returned {got}')
                    continue
                if len(got) != len(q):
                    bad(f'answer_count_differs_from_query_count:{case["group"]}', f'{case}: query {q} -> {got}')
                    continue
                for v, g in zip(q, got):
                    have = holders.get(v, [])
                    if case['allow_all']:
                        gl = list(g) if isinstance(g, (list, tuple)) else [g]
                        want = sorted(map(str, have)) if have else ['None']
                        if sorted(map(str, gl)) != want:
                            bad(f'all_matches_wrong:{case["group"]}', f'{case}: bus {v}: {gl} vs devices on that bus {have}')
                    else:
                        if (g is None and have) or (g is not None and g not in have):
                            bad(f'answer_does_not_hold_the_value:{case["group"]}', f'{case}: query {q} -> {got}: {g!r} is not a device on '
                                                                                   f'bus {v} ({have})')
        out.obs = dict(case=case, queries=n)
        out.transitions = n
        out.nontrivial = True
        return out


def parts(tier):
    return [Registry(tier), BackRefs(), Dangling(), Finder(), FindIdx()]


def run(run, only=None):
    for p in parts(run.tier):
        if only and p.name != only:
            continue
        run.run_part(p)
    run.assumptions += ['an explicit idx that is already taken may be renamed (documented warning) or rejected; '
                        'both keep uniqueness and are accepted',
                        'numerically equal indices of different numeric type (2 and 2.0) are the same key']
    rule = ('explicit-state enumeration of System.add histories and reference patterns on real System objects against a '
            'dict-based registry; non-trivial = >= 2 devices / >= 1 referrer; distinct = distinct observation digest')
    return run.finish(rule)
