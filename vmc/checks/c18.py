"""
C18 - control blocks realise their documented transfer functions from steady state.

Every linear block class of andes/core/block.py is instantiated with named parameters and ``define()``d; its exported
equation strings are the implementation.  On a full tensor grid of 4 generic values per parameter (and every
documented bypass region) the block equations are linearised numerically (they are affine in states, outputs and
input inside a flag region, so unit differences are exact and affinity itself is checked), internal variables are
eliminated with the time constants on the left-hand side, and the resulting G_impl(s) is compared with the
documented transfer function at 7 complex frequencies.  With a constant input the declared initial values must
make every equation balance.  Discrete flags come from the real discrete components of the block.
"""

import itertools

import numpy as np

from vmc.core import Outcome, Part
from vmc.refs.blocks_doc import BLOCKS, S_POINTS

NS_FUNCS = dict(abs=np.abs, sqrt=np.sqrt, exp=np.exp, log=np.log, sin=np.sin, cos=np.cos, maximum=np.maximum,
                minimum=np.minimum, select=np.select, np=np)


def build(cls_name, grid, n, u_level, shift_level=0.37):
    from andes.core import block as B
    from andes.core.block import Block
    from andes.core.discrete import Discrete, AntiWindup, Limiter, LessThan
    from andes.core.param import NumParam
    from andes.core.var import Algeb, State, BaseVar
    spec = BLOCKS[cls_name]
    ns = dict(NS_FUNCS)

    def P(name, arr):
        p = NumParam(name=name, tex_name=name)
        p.v = np.asarray(arr, dtype=float)
        ns[name] = p.v
        return p
    u = Algeb(name='u', tex_name='u')
    u.v = np.full(n, float(u_level))
    ns['u'] = u.v
    kw = {}
    for name in spec['params']:
        kw[name] = P(name, grid[name])
    for name, val in spec.get('fixed', {}).items():
        kw[name] = P(name, np.full(n, val))
    kw.update(spec.get('kwargs', {}))
    if spec.get('shift'):
        kw[spec['shift']] = P(spec['shift'], np.full(n, float(shift_level)))
    blk = getattr(B, cls_name)(u=u, name='B', **kw)
    items = []

    def collect(b):
        for key, item in b.export().items():
            if isinstance(item, Block):
                collect(item)
            else:
                item.name = f'{b.name}_{key}'
                items.append(item)
    collect(blk)
    variables = [it for it in items if isinstance(it, BaseVar)]
    discretes = [it for it in items if isinstance(it, Discrete)]
    for v in variables:
        v.v = np.zeros(n)
        v.e = np.zeros(n)
        v.a = np.arange(n)
        ns[v.name] = v.v
    for d in discretes:
        d.list2array(n)
    return blk, variables, discretes, ns, u


def refresh_flags(discretes, ns, n):
    from andes.core.discrete import AntiWindup, Limiter, LessThan
    for d in discretes:
        if isinstance(d, AntiWindup):
            flags = dict(zi=np.ones(n), zl=np.zeros(n), zu=np.zeros(n))     # inside the (far) limits
        else:
            try:
                d.check_var()
            except Exception:
                pass
            flags = {f: np.broadcast_to(np.asarray(getattr(d, f), dtype=float), (n,)).copy() for f in d.export_flags
                     if hasattr(d, f)}
        for f, val in flags.items():
            ns[f'{d.name}_{f}'] = val


def ev(expr, ns, n):
    if expr is None:
        return np.zeros(n)
    if not isinstance(expr, str):
        return np.full(n, float(expr))
    return np.broadcast_to(np.asarray(eval(expr, {'__builtins__': {}}, ns), dtype=float), (n,)).copy()


class Blocks(Part):
    name = 'blocks'
    chunk = 1
    timeout = 300.0

    def describe(self, tier):
        return (f'{len(BLOCKS)} block classes x their regular region (4 generic values per parameter + the unit value 1.0, full tensor grid) and '
                f'documented bypass regions x 7 complex frequencies; steady state at 3 input levels (0 for integrating '
                f'blocks)' + ('; 5-value refinement of the grid' if tier != 'quick' else ''))

    def cases(self, tier):
        out = []
        for cls, spec in BLOCKS.items():
            for region in spec['regions']:
                out.append([cls, region, 0])
                if tier != 'quick':
                    out.append([cls, region, 1])
        return out

    def execute(self, case):
        cls, region, refine = case
        out = Outcome()
        spec = BLOCKS[cls]
        axes = spec['regions'][region]
        names = spec['params']
        vals = [list(axes[p]) for p in names]
        if refine:
            vals = [v + [round(v[-1] * 1.37 + 0.11, 6)] if len(v) > 1 else v for v in vals]
        pts = np.array(list(itertools.product(*vals)), dtype=float)
        n = len(pts)
        grid = {p: pts[:, i].copy() for i, p in enumerate(names)}
        seen = set()

        def bad(sig, msg):
            if sig not in seen:
                seen.add(sig)
                out.bad(sig, msg)
        try:
            blk, variables, discretes, ns, u = build(cls, grid, n, 0.6)
        except Exception as e:
            out.bad(f'construct_raises:{cls}', f'{type(e).__name__}: {e}')
            out.obs = dict(exc=type(e).__name__)
            return out
        from andes.core.var import State
        nv = len(variables)
        rng = np.random.RandomState(3)
        base = rng.uniform(-0.5, 0.5, (nv + 1, n))
        refresh_flags(discretes, ns, n)

        def residuals(Z):
            for k, v in enumerate(variables):
                v.v[:] = Z[k]
            u.v[:] = Z[nv]
            return np.array([ev(v.e_str, ns, n) for v in variables])
        try:
            e0 = residuals(base)
            J = np.zeros((nv, nv + 1, n))
            for k in range(nv + 1):
                Z = base.copy()
                Z[k] += 1.0
                e1 = residuals(Z)
                Z[k] += 1.0
                e2 = residuals(Z)
                J[:, k, :] = e1 - e0
                if np.max(np.abs(e2 - e0 - 2 * (e1 - e0))) > 1e-9:
                    bad(f'not_affine:{cls}', f'{cls}: equations are not affine in variable #{k}')
        except Exception as e:
            out.bad(f'equation_eval_raises:{cls}', f'{cls} [{region}]: {type(e).__name__}: {e}')
            out.obs = dict(exc=type(e).__name__)
            return out
        # a documented reference input: the equations may depend on (u, ref) only through u - ref
        if spec.get('shift'):
            try:
                e_a = residuals(base)
                ns[spec['shift']][:] += 0.8
                Z = base.copy()
                Z[nv] += 0.8
                e_b = residuals(Z)
                ns[spec['shift']][:] -= 0.8
                if np.max(np.abs(e_a - e_b)) > 1e-9:
                    k, g = np.unravel_index(np.argmax(np.abs(e_a - e_b)), e_a.shape)
                    bad(f'not_a_function_of_u_minus_ref:{cls}', f'{cls}: equation of {variables[k].name} changes by '
                        f'{(e_b - e_a)[k, g]:.6g} when input and {spec["shift"]} are raised by the same amount')
            except Exception as e:
                bad(f'equation_eval_raises:{cls}', f'{cls} [{region}]: {type(e).__name__}: {e}')
        # time constants on the left-hand side
        Tc = np.zeros((nv, n))
        for k, v in enumerate(variables):
            if isinstance(v, State):
                Tc[k] = np.asarray(v.t_const.v, dtype=float) if getattr(v, 't_const', None) is not None else 1.0
        oi = [k for k, v in enumerate(variables) if v.name == f'B_{spec["out"]}'][0]
        worst = 0.0
        for s in S_POINTS:
            for g in range(n):
                M = np.diag(s * Tc[:, g]).astype(complex) - J[:, :nv, g]
                rhs = J[:, nv, g].astype(complex)
                p = {name: grid[name][g] for name in names}
                try:
                    z = np.linalg.solve(M, rhs)
                except np.linalg.LinAlgError:
                    bad(f'singular_block:{cls}:{region}', f'{cls} [{region}] at {p}: block equations singular at s={s}')
                    break
                Gd = spec['G'](s, p)
                err = abs(z[oi] - Gd) / max(1.0, abs(Gd))
                worst = max(worst, err)
                if err > 1e-9:
                    bad(f'tf_mismatch:{cls}:{region}', f'{cls} [{region}] at {p}, s={s}: implemented G={z[oi]:.6g}, '
                        f'documented G={Gd:.6g}')
                    break
        # steady state from the declared initial values
        levels = [0.0] if spec.get('integrating') else [-0.7, 0.4, 1.3]
        if spec.get('shift'):
            levels = [(0.0, 0.0), (0.45, 0.45), (-0.6, -0.6)] if spec.get('integrating') else [(l, 0.0) for l in levels] + [(0.9, 0.45)]
        for lvl in levels:
            lvl, sh = lvl if isinstance(lvl, tuple) else (lvl, 0.0)
            blk, variables, discretes, ns, u = build(cls, grid, n, lvl, sh)
            try:
                for _ in range(4):
                    refresh_flags(discretes, ns, n)
                    for v in variables:
                        v.v[:] = ev(v.v_str, ns, n)
                refresh_flags(discretes, ns, n)
                res = np.array([ev(v.e_str, ns, n) for v in variables])
            except Exception as e:
                bad(f'init_eval_raises:{cls}', f'{cls} [{region}]: {type(e).__name__}: {e}')
                break
            if np.max(np.abs(res)) > 1e-9:
                k, g = np.unravel_index(np.argmax(np.abs(res)), res.shape)
                p = {name: grid[name][g] for name in names}
                bad(f'steady_state_unbalanced:{cls}:{region}', f'{cls} [{region}] at {p}, constant input {lvl} (reference {sh}): equation '
                    f'of {variables[k].name} = {res[k, g]:.6g} with the declared initial values')
        out.obs = dict(cls=cls, region=region, points=n, nvars=nv, worst=float(f'{worst:.3e}'))
        out.transitions = n * len(S_POINTS)
        out.nontrivial = True
        return out


def parts(tier):
    return [Blocks()]


def run(run, only=None):
    for p in parts(run.tier):
        run.run_part(p, audit=3)
    run.assumptions += ['vmc/refs/blocks_doc.py (hand transcription of the documented transfer functions) is trusted',
                        'agreement on a 4^p tensor grid x 7 frequencies decides polynomial identity of G_impl*D_doc - G_doc*D_impl '
                        '(degree <= 3 in each parameter, <= 4 in s) inside each region; the thorough tier adds a fifth value',
                        'limits are placed far outside the operating range (inside-the-limits behaviour)']
    rule = ('all block classes x all regions x full tensor grid x 7 frequencies (numerical linearisation of the exported '
            'equation strings) + steady state from the declared initial values; non-trivial = every execution')
    return run.finish(rule)
