"""
C14 - resumed and snapshot-restored simulations equal the uninterrupted run.

extend   : reference = one uninterrupted run; interruption = every choice of split time(s) from {every accepted-step
           boundary of the reference among the first K steps (crash-point style), te - eps, te, te + eps for each event,
           off-grid times} (singles and pairs); continuation by extending TDS.config.tf and calling run() again.
snapshot : the same with save_ss -> load_ss at the split (same process, and a fresh process for a subset).
reset    : System.reset() + PFlow.run() repeated up to 3 times reproduces the first solution.
Oracle   : event log of the split run = event log of the reference (none lost, none repeated, same times); time axis
           strictly increasing with no gap larger than the configured step; final x, y within the discretisation bound of
           the reference, bit-identical when every split is a step boundary of the reference and the continuation is
           "extend"; after load_ss every variable array is a view of the DAE arrays.
"""

import itertools
import json
import os
import subprocess
import sys
import tempfile

import numpy as np

from vmc.core import Outcome, Part
from vmc import systems
from vmc.rearm import Checkpoint

EPS = 1e-4
TF = 0.5
TSTEP = 1 / 30


def build(name):
    if name == 'smib':
        ss = systems.smib(n_toggle=2, n_alter=1, n_fault=1)
        ss.Fault.tf.v[0], ss.Fault.tc.v[0], ss.Fault.u.v[0] = 0.1, 0.15, 1
        ss.Toggle.dev.v[0], ss.Toggle.t.v[0], ss.Toggle.u.v[0] = 'L3', 0.25, 1
        events = [0.1, 0.15, 0.25]
    elif name == 'static3':
        ss = systems.static3(n_toggle=2, n_alter=1)
        ss.Toggle.dev.v[0], ss.Toggle.t.v[0], ss.Toggle.u.v[0] = 'L3', 0.1, 1
        ss.Toggle.dev.v[1], ss.Toggle.t.v[1], ss.Toggle.u.v[1] = 'L2', 0.25, 1
        k = [i for i, m in enumerate(systems.ALTER_METHODS) if m == '+'][0]
        ss.Alter.t.v[k], ss.Alter.u.v[k], ss.Alter.amount.v[k] = 0.15, 1, 0.1
        events = [0.1, 0.15, 0.25]
    else:
        ss = systems.load_case('kundur/kundur_full.xlsx', setup=False)
        ss.Toggle.t.v[0] = 0.1
        ss.setup()
        systems.quiet_tds(ss)
        events = [0.1]
    assert ss.PFlow.run()
    ss.TDS.config.tstep = TSTEP
    ss.TDS.config.criteria = 0
    return ss, events


def instrument(ss, log):
    for mdl in ss.exist.tds.values() if ss.exist.tds else ss.models.values():
        if mdl.n == 0:
            continue
        for pname, timer in mdl.timer_params.items():
            if timer.callback is None:
                continue
            orig = timer.callback

            def cb(is_time, _orig=orig, _m=mdl.class_name, _p=pname):
                hits = [int(i) for i in np.flatnonzero(np.asarray(is_time))]
                if hits:
                    log.append((round(float(ss.dae.t), 12), _m, _p, hits))
                return _orig(is_time)
            timer.callback = cb


def run_segments(ss, splits, log):
    rets = []
    if any(s == 0.0 for s in splits):
        # an interruption exactly at t0: TDS.init() called explicitly before the first TDS.run()
        ss.TDS.config.tf = TF
        ss.TDS.init()
    for tf in sorted(set(splits)) + [TF]:
        if tf <= 0 or (rets and tf <= ss.TDS.config.tf):
            continue
        ss.TDS.config.tf = tf
        rets.append(bool(ss.TDS.run(no_summary=True)))
        # a user looks at the stored series between segments (composite accessors included)
        _ = (ss.dae.ts.xy.shape, ss.dae.ts.txyz.shape)
    return rets


def compare(out_bad, ref, got, splits, mode, events):
    tag = mode
    if not all(got['rets']):
        out_bad(f'split_run_fails:{tag}', f'segments returned {got["rets"]} for splits {splits}')
        return
    if got['log'] != ref['log']:
        missing = [e for e in ref['log'] if e not in got['log']]
        extra = [e for e in got['log'] if e not in ref['log'] or got['log'].count(e) > ref['log'].count(e)]
        kind = 'lost' if missing else 'repeated_or_shifted'
        where = 'split_at_event' if any(abs(s - e) < 2 * EPS for s in splits for e in events) else 'split_elsewhere'
        out_bad(f'event_{kind}:{tag}:{where}', f'splits {splits}: events missing {missing}, extra {extra}')
    t = got['t']
    sr = got.get('series')
    if sr is not None:
        # every view of the stored series covers the whole (resumed) run and ends with the final state
        if len({sr['n_t'], sr['n_x'], sr['n_y'], sr['n_xy'], sr['n_txyz']}) != 1:
            out_bad(f'stored_series_views_disagree:{tag}', f'splits {splits}: rows t/x/y/xy/txyz = {sr["n_t"]}/{sr["n_x"]}/{sr["n_y"]}/'
                                                            f'{sr["n_xy"]}/{sr["n_txyz"]}')
        elif sr['last_xy'] is not None and (not np.array_equal(sr['last_xy'], got['xy']) or sr['last_t'] != float(t[-1])):
            out_bad(f'stored_series_does_not_end_with_final_state:{tag}', f'splits {splits}: last row of ts.xy / ts.txyz is not the '
                                                                          f'final state / time')
    d = np.diff(t)
    if len(d) and np.min(d) <= 0:
        i = int(np.argmin(d))
        out_bad(f'time_axis_not_increasing:{tag}', f'splits {splits}: stamps {t[i]!r} -> {t[i + 1]!r}')
    if len(d) and np.max(d) > TSTEP * (1 + 1e-9):
        i = int(np.argmax(d))
        out_bad(f'time_axis_gap:{tag}', f'splits {splits}: gap {t[i]!r} -> {t[i + 1]!r} larger than the step {TSTEP}')
    if t[-1] != TF:
        out_bad(f'split_run_not_at_tf:{tag}', f'last stamp {t[-1]!r}')
    for s in splits:
        if 0 < s < TF and s not in t:
            out_bad(f'split_time_not_stored:{tag}', f'split time {s!r} missing from the time axis')
    on_grid = all(s in ref['t'] for s in splits)
    dx = float(np.max(np.abs(got['xy'] - ref['xy']))) if got['xy'].shape == ref['xy'].shape else np.inf
    if on_grid and mode == 'extend':
        # no extra step is inserted: the time axis is that of the uninterrupted run (gap-free, duplicate-free, from t0 on)
        if len(t) != len(ref['t']) or not np.array_equal(t, ref['t']):
            first = next((i for i, (a, b) in enumerate(zip(t, ref['t'])) if a != b), min(len(t), len(ref['t'])))
            where = 'at_t0' if any(s == 0.0 for s in splits) else 'later'
            out_bad(f'time_axis_differs_from_uninterrupted_run:{tag}:{where}', f'splits {splits} are step boundaries of the reference, yet '
                    f'the stored time axis has {len(t)} stamps against {len(ref["t"])}, first difference at #{first}')
        # only the Jacobian refresh schedule may differ, which is a round-off matter
        if dx > 1e-9:
            out_bad(f'differs_at_step_boundary:{tag}', f'splits {splits} are step boundaries of the reference, final state '
                    f'differs by {dx:.3e}')
    elif dx > 2e-3:
        out_bad(f'final_state_differs:{tag}', f'splits {splits}: final state differs from the uninterrupted run by {dx:.3e}')


class Extend(Part):
    name = 'extend'
    chunk = 4
    timeout = 300.0
    K = 12
    sysnames = ('smib', 'static3', 'kundur')

    def __init__(self, tier='quick'):
        self.tier = tier

    def describe(self, tier):
        return (f'systems {self.sysnames}; split times = first {self.K} step boundaries of the reference + te-eps, te, te+eps per '
                f'event + off-grid {{0.123, 0.3777}} + t0 itself (explicit TDS.init before the first run); all singles, all pairs' + (' (pairs on smib only)' if tier == 'quick' else ''))

    def init_worker(self):
        self.sys, self.cp, self.ev, self.ref = {}, {}, {}, {}
        for name in self.sysnames:
            ss, ev = build(name)
            self.sys[name], self.ev[name] = ss, ev
            self.cp[name] = Checkpoint(ss)
            self.ref[name] = self.execute_run(name, [])

    def points(self, name):
        # the reference stamps are deterministic: compute once per process
        ss, ev = build(name)
        log = []
        instrument(ss, log)
        ss.TDS.config.tf = TF
        ss.TDS.run(no_summary=True)
        stamps = [float(x) for x in ss.dae.ts.t]
        pts = [s for s in stamps[1:self.K + 1]]
        for e in ev:
            pts += [e - EPS, e, e + EPS, e - 1e-5, e - 1e-6 * max(1.0, e), e + 1e-6 * max(1.0, e)]
        pts += [0.123, 0.3777]
        return sorted(set(round(p, 12) for p in pts if 0 < p < TF))

    def cases(self, tier):
        out = []
        for name in self.sysnames:
            pts = self.points(name)
            # interruption exactly at t0 (explicit TDS.init before the first run), alone and followed by a second one
            out.append(dict(sys=name, splits=[0.0]))
            for p in pts[:3] + pts[-2:]:
                out.append(dict(sys=name, splits=[0.0, p]))
            for p in pts:
                out.append(dict(sys=name, splits=[p]))
            if tier != 'quick' or name == 'smib':
                for a, b in itertools.combinations(pts, 2):
                    out.append(dict(sys=name, splits=[a, b]))
        return out

    def execute_run(self, name, splits):
        ss = self.sys[name]
        self.cp[name].restore()
        ss.TDS.config.tstep = TSTEP
        ss.TDS.config.criteria = 0
        log = []
        instrument(ss, log)
        rets = run_segments(ss, splits, log)
        ts = ss.dae.ts
        return dict(rets=rets, log=list(log), t=np.array([float(x) for x in ts.t]),
                    xy=np.concatenate([ss.dae.x, ss.dae.y]).copy(),
                    series=dict(n_t=len(ts.t), n_x=len(ts.x), n_y=len(ts.y), n_xy=len(ts.xy), n_txyz=len(ts.txyz),
                                last_xy=np.array(ts.xy[-1]).copy() if len(ts.xy) else None,
                                last_t=float(ts.txyz[-1][0]) if len(ts.txyz) else None))

    def execute(self, case):
        out = Outcome()
        seen = set()

        def bad(sig, msg):
            if sig not in seen:
                seen.add(sig)
                out.bad(sig, msg)
        try:
            got = self.execute_run(case['sys'], case['splits'])
        except Exception as e:
            import traceback
            tb = traceback.extract_tb(e.__traceback__)
            bad(f'raises:{type(e).__name__}@{tb[-1].name if tb else "?"}', f'splits {case["splits"]}: {type(e).__name__}: {e}')
            out.obs = dict(exc=type(e).__name__)
            return out
        compare(bad, self.ref[case['sys']], got, case['splits'], 'extend', self.ev[case['sys']])
        out.obs = dict(n=len(got['t']), log=got['log'], xend=[round(float(v), 10) for v in got['xy'][:4]])
        out.transitions = len(got['t'])
        return out


CONT_CODE = r'''
import sys, json, numpy as np
import andes
andes.config_logger(stream_level=50)
from andes.utils.snapshot import load_ss
ss = load_ss(sys.argv[1])
ss.TDS.config.tf = float(sys.argv[2])
ok = bool(ss.TDS.run(no_summary=True))
print("RESULT" + json.dumps(dict(ok=ok, t=[float(x) for x in ss.dae.ts.t], xy=np.concatenate([ss.dae.x, ss.dae.y]).tolist())))
'''


class Snapshot(Part):
    name = 'snapshot'
    chunk = 1
    timeout = 600.0
    nproc = 3

    def __init__(self, tier='quick'):
        self.tier = tier

    def describe(self, tier):
        return ('smib and kundur_full: save_ss at the split, load_ss and continue; split times = event lattice + every 4th step '
                'boundary + an off-grid time; same process for all, fresh interpreter for the event lattice (quick tier: lattice of the '
                'first event only, two boundaries, one fresh-interpreter case per system)')

    def cases(self, tier):
        out = []
        ext = Extend(tier)
        for name in ('smib', 'kundur'):
            pts = ext.points(name)
            ss, ev = build(name)
            lattice = [p for p in pts if any(abs(p - e) < 2 * EPS for e in ev)]
            others = [p for i, p in enumerate(pts) if p not in lattice][::4] + [0.3777]
            if tier == 'quick':
                # pickling a System in a forked worker is slow here (copy-on-write faults on every touched object, ~10 s per
                # case): the quick tier keeps the lattice around the FIRST event, two step boundaries and the off-grid time
                first = min(ev)
                lattice = [p for p in lattice if abs(p - first) < 2 * EPS]
                others = others[:2] + [0.3777]
                if name == 'kundur':
                    lattice = lattice[::2]
                    others = [0.3777]
            for p in sorted(set(lattice + others)):
                out.append(dict(sys=name, split=p, fresh=False))
            for p in (lattice if tier != 'quick' else lattice[:1]):
                out.append(dict(sys=name, split=p, fresh=True))
        return out

    def init_worker(self):
        self.tmp = tempfile.mkdtemp(prefix='c14-')
        self.ref = {}

    def reference(self, name):
        if name not in self.ref:
            ss, ev = build(name)
            log = []
            instrument(ss, log)
            ss.TDS.config.tf = TF
            ok = ss.TDS.run(no_summary=True)
            self.ref[name] = (dict(rets=[bool(ok)], log=list(log), t=np.array([float(x) for x in ss.dae.ts.t]),
                                   xy=np.concatenate([ss.dae.x, ss.dae.y]).copy()), ev)
        return self.ref[name]

    def execute(self, case):
        from andes.utils.snapshot import save_ss, load_ss
        out = Outcome()
        seen = set()

        def bad(sig, msg):
            if sig not in seen:
                seen.add(sig)
                out.bad(sig, msg)
        ref, ev = self.reference(case['sys'])
        mode = 'snapshot_fresh' if case['fresh'] else 'snapshot'
        path = os.path.join(self.tmp, f'snap-{os.getpid()}.pkl')
        try:
            ss, _ = build(case['sys'])
            log = []
            instrument(ss, log)
            ss.TDS.config.tf = case['split']
            r1 = bool(ss.TDS.run(no_summary=True))
            # the callbacks installed by the harness are closures: remove them before pickling
            for mdl in ss.models.values():
                for pname, timer in mdl.timer_params.items():
                    cb = timer.callback
                    if cb is not None and getattr(cb, '__defaults__', None) and len(cb.__defaults__) == 3:
                        timer.callback = cb.__defaults__[0]
            save_ss(path, ss)
            if case['fresh']:
                r = subprocess.run([sys.executable, '-c', CONT_CODE, path, str(TF)], capture_output=True, text=True,
                                   env=dict(os.environ), cwd=self.tmp, timeout=500)
                line = [ln for ln in r.stdout.splitlines() if ln.startswith('RESULT')]
                if not line:
                    bad(f'fresh_process_continuation_fails:{mode}', f'split {case["split"]}: {r.stderr[-400:]}')
                    out.obs = dict(failed=True)
                    return out
                d = json.loads(line[0][6:])
                got = dict(rets=[r1, d['ok']], log=ref['log'], t=np.array(d['t']), xy=np.array(d['xy']))
                # events of the second segment are not observable across the process boundary: judge them by their effect
            else:
                s2 = load_ss(path)
                # write-through: variables must be views of the DAE arrays
                for mdl in s2.exist.pflow_tds.values():
                    if mdl.n == 0:
                        continue
                    for vn, var in list(mdl.states.items()) + list(mdl.algebs.items()):
                        arr = s2.dae.x if vn in mdl.states else s2.dae.y
                        a = int(var.a[0])
                        keep = arr[a]
                        arr[a] = keep + 1.2345
                        okv = var.v[0] == keep + 1.2345
                        arr[a] = keep
                        if not okv:
                            bad('variable_not_a_view_after_load', f'{mdl.class_name}.{vn}: writing dae array is not seen through var.v '
                                f'after load_ss')
                            break
                log2 = list(log)
                instrument(s2, log2)
                s2.TDS.config.tf = TF
                r2 = bool(s2.TDS.run(no_summary=True))
                got = dict(rets=[r1, r2], log=log2, t=np.array([float(x) for x in s2.dae.ts.t]),
                           xy=np.concatenate([s2.dae.x, s2.dae.y]).copy())
        except Exception as e:
            import traceback
            tb = traceback.extract_tb(e.__traceback__)
            bad(f'raises:{type(e).__name__}@{tb[-1].name if tb else "?"}:{mode}', f'split {case["split"]}: {type(e).__name__}: {e}')
            out.obs = dict(exc=type(e).__name__)
            return out
        finally:
            if os.path.exists(path):
                os.remove(path)
        compare(bad, ref, got, [case['split']], mode, ev)
        out.obs = dict(split=case['split'], n=len(got['t']), xend=[round(float(v), 10) for v in got['xy'][:4]])
        return out


class Reset(Part):
    name = 'reset'
    chunk = 1
    timeout = 600.0
    nproc = 8

    CASES = ['5bus/pjm5bus.json', 'kundur/kundur_full.xlsx', 'ieee14/ieee14_full.xlsx', 'ieee14/ieee14.raw', 'wscc9/wscc9.xlsx',
             'ieee39/ieee39.xlsx']

    def describe(self, tier):
        return f'{self.CASES}: PFlow.run, then (System.reset, PFlow.run) x 3; every solution equals the first to 1e-12'

    def cases(self, tier):
        return list(self.CASES)

    def execute(self, case):
        out = Outcome()
        ss = systems.load_case(case)
        try:
            ok = ss.PFlow.run()
            first = np.concatenate([ss.dae.x, ss.dae.y]).copy()
            sizes = (ss.dae.n, ss.dae.m, getattr(ss.dae, 'p', None), getattr(ss.dae, 'q', None))
            for k in range(3):
                ss.reset()
                ok2 = ss.PFlow.run()
                now = np.concatenate([ss.dae.x, ss.dae.y])
                if ok2 != ok:
                    out.bad('reset_changes_convergence', f'{case}: run {k + 2} returned {ok2}, first {ok}')
                elif now.shape != first.shape or np.max(np.abs(now - first)) > 1e-12:
                    d = np.max(np.abs(now - first)) if now.shape == first.shape else 'shape'
                    out.bad('reset_changes_solution', f'{case}: power flow after reset #{k + 1} differs from the first by {d}')
                s2 = (ss.dae.n, ss.dae.m, getattr(ss.dae, 'p', None), getattr(ss.dae, 'q', None))
                if s2 != sizes:
                    out.bad('reset_changes_dae_sizes', f'{case}: (n, m, p, q) {sizes} -> {s2} after reset #{k + 1}')
        except Exception as e:
            import traceback
            tb = traceback.extract_tb(e.__traceback__)
            out.bad(f'raises:{type(e).__name__}@{tb[-1].name if tb else "?"}', f'{case}: {type(e).__name__}: {e}')
        out.obs = dict(case=case)
        return out


def parts(tier):
    return [Extend(tier), Snapshot(tier), Reset()]


def run(run, only=None):
    for p in parts(run.tier):
        if only and p.name != only:
            continue
        run.run_part(p, audit=2 if p.name != 'snapshot' else 0)
    run.assumptions += ['discretisation bound for off-grid splits: 2e-3 on the final state (each interruption inserts at most one short step)',
                        'splits at step boundaries of the reference in extend mode must agree to 1e-9 (no extra step; only the Jacobian refresh schedule differs)',
                        'events of a segment continued in a fresh interpreter are judged by their effect on the trajectory']
    rule = ('all single and pair interruptions from {step boundaries, event lattice, off-grid} x continuation modes against the '
            'uninterrupted run; non-trivial = every execution')
    return run.finish(rule)
