"""
C01 - converged power flow satisfies the AC network equations of the input data.

Networks: all connected simple graphs on 2 and 3 buses (4 in thorough); default = plain branches, a PQ load on every
non-slack bus.  Deviations (all single ones, all pairs on two graphs in quick / everywhere in thorough): per-branch
feature in {off-nominal tap, phase shifter, asymmetric end shunts, line charging, own MVA/kV base, parallel line
offline} and per-bus device set in {2 x PQ, PV, PV + PQ, Shunt + PQ, offline PQ + PQ}.
Cross dimensions on the default and every single-deviation network (one at a time): reversed device order,
string indices, same data re-expressed on another device base, json round trip, Newton variant, sparse solver,
linsolve, ipadd.
Oracle: vmc.refs.acflow (independent pi-model + textbook base conversion + its own Newton for well-posedness).
"""

import itertools
import json
import os
import tempfile

import numpy as np

from vmc.core import Outcome, Part
from vmc.refs.acflow import Net

BRANCH_FEATURES = {
    'plain': {},
    'tap': dict(tap=1.05),
    'phase': dict(phi=0.06),
    'tap+phase': dict(tap=0.96, phi=-0.04),
    'asym': dict(b1=0.02, b2=0.07, g1=0.015, g2=0.002),
    'charging': dict(b=0.06, g=0.004),
    # features that interact on ONE branch: the shunts sit inside / outside the ideal transformer
    'tap+charging': dict(tap=0.93, b=0.08, g=0.004),
    'tap+phase+asym': dict(tap=1.07, phi=0.05, b1=0.03, b2=0.06, g1=0.01, g2=0.002),
    'base': dict(Sn=50.0, Vn1f=1.1),          # Vn1 = 1.1 * bus kV, own MVA base
    'off+parallel': dict(parallel_off=True),
}
BUS_DEVICES = ['pq', 'pq2', 'pv', 'pv+pq', 'shunt+pq', 'pqoff+pq', 'shunt3+pq', 'offbus+pq']


def graphs(n):
    nodes = list(range(n))
    edges = list(itertools.combinations(nodes, 2))
    out = []
    for r in range(n - 1, len(edges) + 1):
        for sub in itertools.combinations(edges, r):
            # connected?
            comp = {0}
            changed = True
            while changed:
                changed = False
                for a, b in sub:
                    if (a in comp) != (b in comp):
                        comp |= {a, b}
                        changed = True
            if len(comp) == n:
                out.append(list(sub))
    return out


def make_spec(n, edges, bfeat, bdev):
    """Return the network specification (lists of dicts = ANDES input data)."""
    kv = [110.0, 220.0, 110.0, 345.0][:n]
    spec = dict(Bus=[], Line=[], PQ=[], PV=[], Slack=[], Shunt=[])
    for k in range(n):
        spec['Bus'].append(dict(idx=k + 1, name=f'B{k + 1}', Vn=kv[k], vmax=1.6, vmin=0.4))
    for e, (i, j) in enumerate(edges):
        f = dict(BRANCH_FEATURES[bfeat.get(e, 'plain')])
        Vn1 = kv[i] * f.pop('Vn1f', 1.0)
        par_off = f.pop('parallel_off', False)
        ln = dict(idx=f'L{e}', bus1=i + 1, bus2=j + 1, r=0.01 + 0.002 * e, x=0.08 + 0.02 * e, Vn1=Vn1, Vn2=kv[j],
                  Sn=100.0, trans=1 if kv[i] != kv[j] else 0)
        ln.update(f)
        spec['Line'].append(ln)
        if par_off:
            spec['Line'].append(dict(idx=f'L{e}p', bus1=i + 1, bus2=j + 1, r=0.02, x=0.11, Vn1=kv[i], Vn2=kv[j],
                                     Sn=100.0, u=0))
    spec['Slack'].append(dict(idx='S1', bus=1, v0=1.02, a0=0.0, Vn=kv[0], Sn=100.0))
    for k in range(1, n):
        dev = bdev.get(k, 'pq')
        b = k + 1
        if dev in ('pq', 'pq2', 'pv+pq', 'shunt+pq', 'pqoff+pq', 'shunt3+pq', 'offbus+pq'):
            spec['PQ'].append(dict(idx=f'P{b}', bus=b, p0=0.25 + 0.05 * k, q0=0.08, Vn=kv[k], vmax=1.6, vmin=0.4))
        if dev == 'pq2':
            spec['PQ'].append(dict(idx=f'P{b}b', bus=b, p0=0.1, q0=-0.03, Vn=kv[k], vmax=1.6, vmin=0.4))
        if dev == 'pqoff+pq':
            spec['PQ'].append(dict(idx=f'P{b}o', bus=b, p0=3.0, q0=1.0, Vn=kv[k], u=0, vmax=1.6, vmin=0.4))
        if dev in ('pv', 'pv+pq'):
            spec['PV'].append(dict(idx=f'G{b}', bus=b, p0=0.4, v0=1.01, Vn=kv[k], Sn=50.0, qmax=99.0, qmin=-99.0))
        if dev == 'shunt3+pq':
            # several shunts on one bus (own bases), the last one out of service
            spec['Shunt'].append(dict(idx=f'H{b}', bus=b, g=0.01, b=0.08, Vn=kv[k] * 1.05, Sn=80.0))
            spec['Shunt'].append(dict(idx=f'H{b}b', bus=b, g=0.0, b=0.05, Vn=kv[k], Sn=100.0))
            spec['Shunt'].append(dict(idx=f'H{b}o', bus=b, g=0.0, b=0.3, Vn=kv[k], Sn=100.0, u=0))
        if dev == 'offbus+pq':
            # an out-of-service bus next to bus b: it is the to-end of two branches, the from-end of two more, and carries
            # two loads, a generator and a shunt - all of which are out of service with it
            ob = 90 + b
            spec['Bus'].append(dict(idx=ob, name=f'B{ob}', Vn=kv[k], u=0, vmax=1.6, vmin=0.4))
            for tag, (f, t) in zip('abcd', ((b, ob), (b, ob), (ob, 1), (ob, b))):
                spec['Line'].append(dict(idx=f'LO{b}{tag}', bus1=f, bus2=t, r=0.01, x=0.09, Sn=100.0,
                                         Vn1=kv[k] if f != 1 else kv[0], Vn2=kv[k] if t != 1 else kv[0],
                                         trans=1 if (kv[0] != kv[k] and 1 in (f, t)) else 0))
            spec['PQ'].append(dict(idx=f'PO{b}a', bus=ob, p0=0.7, q0=0.2, Vn=kv[k], vmax=1.6, vmin=0.4))
            spec['PQ'].append(dict(idx=f'PO{b}b', bus=ob, p0=0.4, q0=0.1, Vn=kv[k], vmax=1.6, vmin=0.4))
            spec['PV'].append(dict(idx=f'GO{b}', bus=ob, p0=0.3, v0=1.03, Vn=kv[k], Sn=50.0, qmax=99.0, qmin=-99.0))
            spec['Shunt'].append(dict(idx=f'HO{b}', bus=ob, g=0.0, b=0.2, Vn=kv[k], Sn=100.0))
        if dev == 'shunt+pq':
            spec['Shunt'].append(dict(idx=f'H{b}', bus=b, g=0.01, b=0.08, Vn=kv[k] * 1.05, Sn=80.0))
    return spec


def rebase(spec, factor=2.0):
    """The same physical network with every line / shunt expressed on another MVA base."""
    out = json.loads(json.dumps(spec))
    for ln in out['Line']:
        ln['Sn'] = ln.get('Sn', 100.0) * factor
        for k in ('r', 'x'):
            if k in ln:
                ln[k] = ln[k] * factor          # z_pu proportional to S_base
        for k in ('b', 'g', 'b1', 'g1', 'b2', 'g2'):
            if k in ln:
                ln[k] = ln[k] / factor
    for sh in out['Shunt']:
        sh['Sn'] = sh.get('Sn', 100.0) * factor
        sh['g'] = sh['g'] / factor
        sh['b'] = sh['b'] / factor
    for g in out['PV']:
        g['Sn'] = g['Sn'] * factor          # set-points are system-base quantities: unchanged
    return out


def relabel(spec):
    """String indices instead of numbers for buses."""
    out = json.loads(json.dumps(spec))
    m = {b['idx']: f'bus{b["idx"]}' for b in out['Bus']}
    for b in out['Bus']:
        b['idx'] = m[b['idx']]
    for model in ('PQ', 'PV', 'Slack', 'Shunt'):
        for d in out[model]:
            d['bus'] = m[d['bus']]
    for ln in out['Line']:
        ln['bus1'] = m[ln['bus1']]
        ln['bus2'] = m[ln['bus2']]
    return out


def to_net(spec):
    net = Net(100.0)
    off = {b['idx'] for b in spec['Bus'] if not b.get('u', 1)}
    for b in spec['Bus']:
        if b['idx'] not in off:
            net.bus[b['idx']] = b['Vn']
    # a bus out of service takes every device attached to it out of service
    net.lines = [dict(l) for l in spec['Line'] if l['bus1'] not in off and l['bus2'] not in off]
    net.pq = [dict(d) for d in spec['PQ'] if d['bus'] not in off]
    net.pv = [dict(d) for d in spec['PV'] if d['bus'] not in off]
    net.slack = [dict(d) for d in spec['Slack'] if d['bus'] not in off]
    net.shunt = [dict(d) for d in spec['Shunt'] if d['bus'] not in off]
    return net


def build(spec, order='default', opts=None, via=None, tmp=None):
    import andes
    items = [(m, d) for m in ('Bus', 'Line', 'Slack', 'PV', 'PQ', 'Shunt') for d in spec[m]]
    if order == 'reversed':
        items = items[::-1]
    kw = dict(no_output=True, default_config=True)
    if opts:
        kw['config_option'] = opts
    ss = andes.System(**kw)
    for m, d in items:
        ss.add(m, dict(d))
    if via == 'json':
        ss.setup()
        path = os.path.join(tmp, f'c01-{os.getpid()}.json')
        andes.io.json.write(ss, path)
        ss = andes.load(path, **kw)
        os.remove(path)
    else:
        ss.setup()
    return ss


VARIANTS = ['default', 'reversed', 'stridx', 'rebased', 'json', 'dishonest', 'NK', 'umfpack', 'spsolve', 'linsolve',
            'ipadd0']


class Flow(Part):
    name = 'flow'
    chunk = 2
    timeout = 300.0
    nproc = 8

    def __init__(self, tier='quick'):
        self.tier = tier

    def describe(self, tier):
        n = 3 if tier == 'quick' else 4
        return (f'connected graphs on 2..{n} buses; default + all single deviations (branch feature x{len(BRANCH_FEATURES) - 1}, '
                f'bus device set x{len(BUS_DEVICES) - 1}) + pairs of deviations; cross dimensions {VARIANTS[1:]} one at a '
                f'time on the default and single-deviation networks')

    def cases(self, tier):
        out = []
        sizes = [2, 3] if tier == 'quick' else [2, 3, 4]
        for n in sizes:
            gl = graphs(n)
            if n == 4:
                gl = [g for g in gl if len(g) in (3, 6)][:6] + [g for g in gl if len(g) == 4][:3]
            for gi, edges in enumerate(gl):
                devs = []
                for e in range(len(edges)):
                    for f in BRANCH_FEATURES:
                        if f != 'plain':
                            devs.append(('b', e, f))
                for k in range(1, n):
                    for d in BUS_DEVICES:
                        if d != 'pq':
                            devs.append(('d', k, d))
                base = dict(n=n, edges=[list(e) for e in edges])
                singles = [[]] + [[d] for d in devs]
                for dv in singles:
                    for var in (VARIANTS if (n <= 3) else ['default', 'reversed']):
                        out.append(dict(base, dev=[list(x) for x in dv], var=var))
                pairs_ok = (tier != 'quick') or (n == 3 and gi in (0, len(gl) - 1)) or n == 2
                if pairs_ok and n <= 3:
                    for a, b in itertools.combinations(devs, 2):
                        if a[0] == b[0] and a[1] == b[1]:
                            continue
                        out.append(dict(base, dev=[list(a), list(b)], var='default'))
        return out

    def init_worker(self):
        self.tmp = tempfile.mkdtemp(prefix='c01-')
        self.cache = {}

    def solve(self, spec, var):
        opts = {'dishonest': ['PFlow.method=dishonest'], 'NK': ['PFlow.method=NK'], 'umfpack': ['PFlow.sparselib=umfpack'],
                'spsolve': ['PFlow.sparselib=spsolve'], 'linsolve': ['PFlow.linsolve=1'], 'ipadd0': ['System.ipadd=0']}.get(var)
        if var == 'rebased':
            spec = rebase(spec)
        if var == 'stridx':
            spec = relabel(spec)
        ss = build(spec, order='reversed' if var == 'reversed' else 'default', opts=opts,
                   via='json' if var == 'json' else None, tmp=self.tmp)
        ss.Bus.config.flat_start = 1
        ok = ss.PFlow.run()
        return ss, spec, ok

    def execute(self, case):
        out = Outcome()
        bfeat = {e: f for k, e, f in case['dev'] if k == 'b'}
        bdev = {b: d for k, b, d in case['dev'] if k == 'd'}
        spec0 = make_spec(case['n'], [tuple(e) for e in case['edges']], bfeat, bdev)
        var = case['var']
        try:
            ss, spec, ok = self.solve(spec0, var)
        except Exception as e:
            import traceback
            tb = traceback.extract_tb(e.__traceback__)
            out.bad(f'raises:{type(e).__name__}@{tb[-1].name if tb else "?"}:{var}', f'{type(e).__name__}: {e}')
            out.obs = dict(exc=type(e).__name__)
            return out
        feats = ','.join(sorted(set(bfeat.values()) | set(bdev.values()))) or 'default'
        net = to_net(spec)
        ref = net.solve()
        if ref is None:
            out.obs = dict(ok=bool(ok), ref='no reference solution')
            out.nontrivial = False
            return out
        if not ok:
            out.bad(f'no_convergence:{var}', f'power flow did not converge from a flat start ({feats}); the reference Newton does')
            out.obs = dict(ok=False)
            return out
        tol = ss.PFlow.config.tol if var != 'NK' else 2e-5
        V = {}
        for i, b in enumerate(ss.Bus.idx.v):
            V[b] = ss.Bus.v.v[i] * np.exp(1j * ss.Bus.a.v[i])
        gen = {}
        for i, idx in enumerate(ss.PV.idx.v):
            if ss.PV.u.v[i]:
                b = ss.PV.bus.v[i]
                gen[b] = gen.get(b, 0j) + ss.PV.p.v[i] + 1j * ss.PV.q.v[i]
        for i, idx in enumerate(ss.Slack.idx.v):
            if ss.Slack.u.v[i]:
                b = ss.Slack.bus.v[i]
                gen[b] = gen.get(b, 0j) + ss.Slack.p.v[i] + 1j * ss.Slack.q.v[i]
        mis, allow = net.mismatch(V, gen)
        worst_b = max(mis, key=lambda b: abs(mis[b]) - allow[b])
        worst = abs(mis[worst_b])
        if worst > 10 * tol + allow[worst_b]:
            out.bad(f'power_balance_violated:{feats}', f'bus {worst_b}: |dS| = {worst:.3e} (tol {tol:g}) computed from the input '
                    f'data with the reported voltages; features {feats}; variant {var}')
        # set-points
        for d in net.pv:
            if abs(abs(V[d['bus']]) - d['v0']) > 1e-8:
                out.bad('pv_bus_off_setpoint', f'bus {d["bus"]}: |V|={abs(V[d["bus"]]):.8f}, set-point {d["v0"]}')
            exp_p = d['p0']            # documented as a system-base quantity
            got_p = [ss.PV.p.v[i] for i, idx in enumerate(ss.PV.idx.v) if idx == d['idx']][0]
            if abs(got_p - exp_p) > 1e-8:
                out.bad('pv_injection_not_input_value', f'PV {d["idx"]}: p={got_p}, input set-point {exp_p} pu')
        sl = spec['Slack'][0]
        if abs(np.angle(V[sl['bus']]) - sl['a0']) > 1e-9 or abs(abs(V[sl['bus']]) - sl['v0']) > 1e-9:
            out.bad('slack_off_reference', f'slack bus voltage {V[sl["bus"]]}')
        # agreement with the reference solution and with the default variant
        order = [b['idx'] for b in spec['Bus'] if b.get('u', 1)]
        dv = max(abs(V[b] - ref[b]) for b in order)
        if dv > 1e3 * tol:
            out.bad(f'differs_from_reference_solution:{feats}', f'max |V - V_ref| = {dv:.3e}')
        if var != 'default':
            key = json.dumps([case['n'], case['edges'], case['dev']])
            if key not in self.cache:
                s0, sp0, ok0 = self.solve(spec0, 'default')
                self.cache[key] = np.array([s0.Bus.v.v[i] * np.exp(1j * s0.Bus.a.v[i]) for i in range(s0.Bus.n)
                                            if spec0['Bus'][i].get('u', 1)]) if ok0 else None
            base = self.cache[key]
            mine = np.array([V[b] for b in order])
            if base is not None:
                d = float(np.max(np.abs(mine - base)))
                lim = 1e-8 if var != 'NK' else 1e-4
                if d > lim:
                    out.bad(f'variant_changes_answer:{var}', f'{var}: solution differs from the default entry by {d:.2e} '
                            f'({feats})')
        out.obs = dict(ok=True, V=[[round(abs(V[b]), 9), round(float(np.angle(V[b])), 9)] for b in order],
                       worst=float(f'{worst:.2e}'))
        out.nontrivial = bool(case['dev']) or var != 'default'
        return out


def parts(tier):
    return [Flow(tier)]


def run(run, only=None):
    for p in parts(run.tier):
        run.run_part(p, audit=4)
    run.assumptions += ['PQ voltage limits are set wide so loads stay constant-power (the conversion to impedance outside limits '
                        'is documented behaviour)', 'Vn2 different from the to-bus kV is excluded (no documented conversion)',
                        'per-branch allowance 2e-8*|y|^2*(|V1|+|V2|)^2 for the 1e-8 the model adds to r and x',
                        'Newton-Krylov is judged at the scipy default tolerance it runs with (2e-5)']
    rule = ('all connected graphs up to the size bound x default + single (+ pair) deviations of branch features and bus '
            'device sets x one cross-dimension deviation; every execution compared with an independent pi-model; '
            'non-trivial = non-default network or variant')
    return run.finish(rule)
