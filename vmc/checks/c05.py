"""
C05 - dynamic initialisation is an equilibrium consistent with the power flow.

stock  : every stand-alone stock case (a finite program set, enumerated from disk): power flow, TDS.init, then
         (a) truthfulness: the reported verdict is True  <=>  max |f, g| recomputed by the harness from a fresh residual
             evaluation is below the tolerance (checked unconditionally);
         (b) when the independent precondition holds (no limiter of any model outside its "inside" state at the initial
             point): initialisation must pass, bus voltages must equal the power-flow solution, and an undisturbed run
             must stay at the initial point.
attach : a 3-bus two-machine base system with every dynamic model attached in turn with default parameters
         (all exciters, governors, stabilisers, voltage compensator, renewable generators and their controller chain,
         distributed generators, dynamic loads, measurement devices), then every exciter x governor pair (thorough).
split  : status / split dimension: each dynamic device of kundur_full offline in turn; a static generator split
         between two machines with (gammap, gammaq) in {(1,1)/(0,0), (.5,.5), (.3,.7)}.
"""

import itertools

import numpy as np

from vmc.core import Outcome, Part
from vmc import systems


def audit_init(ss, out_bad, where, undisturbed=True, demand_success=None, sig_by_owner=False):
    """Shared oracle. Returns observation dict."""
    tds = ss.TDS
    dae = ss.dae
    tol = tds.config.tol
    verdict = tds.test_ok
    # (a) truthfulness
    x0, y0 = dae.x.copy(), dae.y.copy()
    tds.fg_update(ss.exist.pflow_tds)
    fg = np.array(dae.fg).copy()
    for a in getattr(ss, 'no_check_init', []):
        fg[int(a)] = 0.0
    for aw in ss.antiwindups:
        for key, _, _ in getattr(aw, 'x_set', []):
            for a in np.atleast_1d(key):
                fg[int(a)] = 0.0
    with np.errstate(all='ignore'):
        resid = float(np.nanmax(np.abs(fg))) if len(fg) else 0.0
    has_nan = bool(np.isnan(fg).any())
    if verdict is True and (resid >= 10 * tol or has_nan):
        i = int(np.nanargmax(np.abs(fg))) if not has_nan else int(np.flatnonzero(np.isnan(fg))[0])
        # attached-model combinations: the signature names the model whose equation carries the residual, so that one
        # model defect is one finding whatever it is combined with
        parts_ = str(dae.xy_name[i]).split()
        key = parts_[1] if (sig_by_owner and len(parts_) >= 2) else where
        out_bad(f'init_reports_success_with_residual:{key}', f'{where}: test_ok is True but |residual| = {resid:.3e} '
                f'{"(NaN present) " if has_nan else ""}at {dae.xy_name[i]}')
    if verdict is False and resid < 0.1 * tol and not has_nan:
        out_bad(f'init_reports_failure_at_equilibrium:{where}', f'{where}: test_ok is False but |residual| = {resid:.3e}')
    # precondition: every limiter-like discrete component inside at the initial point
    inside = True
    outside = []
    for mdl in ss.exist.pflow_tds.values():
        if mdl.n == 0:
            continue
        for name, d in mdl.discrete.items():
            zi = getattr(d, 'zi', None)
            if zi is not None and hasattr(d, 'zl') and np.size(zi) == mdl.n and not np.all(np.asarray(zi) == 1):
                if getattr(d, 'enable', True) is not False:
                    inside = False
                    outside.append(f'{mdl.class_name}.{name}')
    # consistent data also means an energised, single-slack network
    if ss.Bus.n_islanded_buses or len(ss.Bus.nosw_island) or len(ss.Bus.msw_island):
        inside = False
        outside.append('islands')
    obs = dict(verdict=verdict, resid=float(f'{resid:.3e}'), inside=inside, outside=outside[:4])
    want = inside if demand_success is None else (demand_success and inside)
    if want:
        if verdict is not True:
            bad_names = [dae.xy_name[int(i)] for i in np.flatnonzero(np.abs(fg) >= tol)[:3]]
            out_bad(f'init_fails_inside_limits:{where}', f'{where}: all limiters inside, yet initialisation failed; |residual| = '
                    f'{resid:.3e} at {bad_names}')
        nb = ss.Bus.n
        ysol = np.array(ss.PFlow.y_sol)
        if np.max(np.abs(y0[:2 * nb] - ysol[:2 * nb])) > 1e-8:
            out_bad(f'bus_voltage_moved_by_init:{where}', f'{where}: bus a/v after initialisation differ from the power-flow solution by '
                    f'{np.max(np.abs(y0[:2 * nb] - ysol[:2 * nb])):.2e}')
        if undisturbed and verdict is True:
            ss.options['flat'] = True
            for k in ('switch_dict',):
                pass
            ss.switch_dict.clear()
            ss.switch_times = np.array([])
            ss.n_switches = 0
            tds.config.tf = 1.0
            tds.config.criteria = 0
            try:
                ok = tds.run(no_summary=True)
                dx = float(np.max(np.abs(dae.x - x0))) if len(x0) else 0.0
                dy = float(np.max(np.abs(dae.y - y0))) if len(y0) else 0.0
                obs['drift'] = float(f'{max(dx, dy):.2e}')
                if not ok:
                    out_bad(f'undisturbed_run_fails:{where}', f'{where}: run without disturbance returned False')
                elif max(dx, dy) > 10 * tol:
                    i = int(np.argmax(np.abs(np.concatenate([dae.x - x0, dae.y - y0]))))
                    out_bad(f'undisturbed_run_drifts:{where}', f'{where}: {dae.xy_name[i]} moved by {max(dx, dy):.3e} in 1 s without '
                            f'any disturbance')
            except Exception as e:
                out_bad(f'undisturbed_run_raises:{where}:{type(e).__name__}', f'{where}: {type(e).__name__}: {e}')
    return obs


class Stock(Part):
    name = 'stock'
    chunk = 1
    timeout = 900.0
    nproc = 8

    def describe(self, tier):
        return 'every stand-alone stock case: power flow, TDS.init, truthfulness + conditional success + undisturbed 1 s run'

    def cases(self, tier):
        from vmc.checks.c13 import stock_cases
        return stock_cases()

    def execute(self, case):
        import andes
        import os
        out = Outcome()
        seen = set()

        def bad(sig, msg):
            if sig not in seen:
                seen.add(sig)
                out.bad(sig, msg)
        kw = {}
        if case.endswith('.raw'):
            base = andes.get_case(case)
            for cand in (base.replace('.raw', '.dyr'), base.replace('.raw', '_full.dyr')):
                if os.path.isfile(cand):
                    kw['addfile'] = cand
                    break
        try:
            ss = systems.load_case(case, **kw)
            systems.quiet_tds(ss)
            pf = ss.PFlow.run()
        except Exception as e:
            out.obs = dict(skipped=f'{type(e).__name__}')
            out.nontrivial = False
            return out
        if not pf or len(ss.exist.tds) == 0 or ss.dae.n + ss.dae.m == 0:
            out.obs = dict(skipped='no power-flow solution or no dynamics', pf=bool(pf))
            out.nontrivial = False
            return out
        # data consistency (precondition, decided before initialisation): an online dynamic generator must replace an
        # online static generator
        consistent = True
        for grp in ('SynGen', 'RenGen', 'DG'):
            g = ss.groups.get(grp)
            if g is None or g.n == 0:
                continue
            for idx in g.get_all_idxes():
                try:
                    if g.get('u', idx, 'v') and not ss.StaticGen.get('u', g.get('gen', idx, 'v'), 'v'):
                        consistent = False
                except Exception:
                    consistent = False
        try:
            ss.TDS.init()
        except Exception as e:
            import traceback
            tb = traceback.extract_tb(e.__traceback__)
            bad(f'init_raises:{type(e).__name__}@{tb[-1].name if tb else "?"}:{case}', f'{case}: {type(e).__name__}: {e}')
            out.obs = dict(exc=type(e).__name__)
            return out
        tag = case.split('/')[-1]
        out.obs = dict(case=case, consistent=consistent, **audit_init(ss, bad, tag, demand_success=consistent))
        out.nontrivial = ss.dae.n > 0
        out.transitions = 3
        return out


# ------------------------------------------------------------------ attachments

def base_system():
    import andes
    ss = andes.System(no_output=True, default_config=True)
    for k in range(3):
        ss.add('Bus', dict(idx=k + 1, Vn=110, name=f'B{k + 1}'))
    ss.add('Line', dict(idx='L0', bus1=1, bus2=2, x=0.1, r=0.01, Vn1=110, Vn2=110))
    ss.add('Line', dict(idx='L1', bus1=2, bus2=3, x=0.12, r=0.01, Vn1=110, Vn2=110))
    ss.add('Line', dict(idx='L2', bus1=1, bus2=3, x=0.15, r=0.012, Vn1=110, Vn2=110))
    ss.add('Slack', dict(idx='S1', bus=1, v0=1.02, Vn=110, Sn=100))
    ss.add('PV', dict(idx='G2', bus=2, p0=0.5, v0=1.01, Vn=110, Sn=100))
    ss.add('PV', dict(idx='G3', bus=3, p0=0.3, v0=1.0, Vn=110, Sn=100))
    ss.add('PQ', dict(idx='P2', bus=2, p0=0.6, q0=0.15, Vn=110))
    ss.add('PQ', dict(idx='P3', bus=3, p0=0.5, q0=0.1, Vn=110))
    ss.add('GENROU', dict(idx='M1', bus=1, gen='S1', Vn=110, Sn=100, M=8.0))
    ss.add('GENROU', dict(idx='M2', bus=2, gen='G2', Vn=110, Sn=100, M=6.0))
    return ss


CHAINS = {
    # model -> list of (model, params) to add before it, and the params of the model itself
    'Exciter': lambda m: [(m, dict(idx='X', syn='M2'))],
    'TurbineGov': lambda m: [(m, dict(idx='X', syn='M2'))],
    'PSS': lambda m: [('EXDC2', dict(idx='E2', syn='M2')), (m, dict(idx='X', avr='E2', MODE=1))],
    'VoltComp': lambda m: [('EXDC2', dict(idx='E2', syn='M2')), (m, dict(idx='X', avr='E2'))],
    'RenGen': lambda m: [(m, dict(idx='X', bus=3, gen='G3', Sn=100))],
    'RenExciter': lambda m: [('REGCA1', dict(idx='R3', bus=3, gen='G3', Sn=100)),
                             (m, dict(idx='X', reg='R3', PFFLAG=0, VFLAG=0, QFLAG=0, PFLAG=0, PQFLAG=0, **({'sg': 'M2'} if m == 'REECA1G' else {})))],
    'RenPlant': lambda m: [('REGCA1', dict(idx='R3', bus=3, gen='G3', Sn=100)),
                           ('REECA1', dict(idx='RE3', reg='R3', PFFLAG=0, VFLAG=0, QFLAG=0, PFLAG=0, PQFLAG=0)),
                           (m, dict(idx='X', ree='RE3', line='L1', VCFlag=0, RefFlag=0, Fflag=0))],
    'RenGovernor': lambda m: [('REGCA1', dict(idx='R3', bus=3, gen='G3', Sn=100)),
                              ('REECA1', dict(idx='RE3', reg='R3', PFFLAG=0, VFLAG=0, QFLAG=0, PFLAG=0, PQFLAG=0)),
                              (m, dict(idx='X', ree='RE3'))],
    'DG': lambda m: [(m, dict(idx='X', bus=3, gen='G3', Sn=100, pqflag=0))],
    'DynLoad': lambda m: [(m, dict(idx='X', pq='P3', **(dict(kpp=40, kpi=30, kpz=30, kqp=40, kqi=30, kqz=30) if m == 'ZIP' else {})))],
    'Motor': lambda m: [(m, dict(idx='X', bus=3, Sn=10))],
    'FreqMeasurement': lambda m: [(m, dict(idx='X', bus=2))],
    'PhasorMeasurement': lambda m: [(m, dict(idx='X', bus=2))],
    'PLL': lambda m: [(m, dict(idx='X', bus=2))],
}


def attachable():
    import andes
    ss = andes.System(no_output=True, default_config=True)
    out = []
    for name, mdl in ss.models.items():
        if mdl.group in CHAINS and mdl.flags.tds and name not in ('PLBVFU1',):
            out.append((name, mdl.group))
    return out


class Attach(Part):
    name = 'attach'
    chunk = 1
    timeout = 600.0
    nproc = 8

    def __init__(self, tier='quick'):
        self.tier = tier

    def describe(self, tier):
        return ('3-bus two-machine base system + each attachable dynamic model with default parameters (exciters, governors, '
                'stabilisers, compensator, renewable generators / controllers, distributed generators, dynamic loads, motors, '
                'measurement devices), once in service and once out of service (u = 0)' + ('; all exciter x governor pairs' if tier != 'quick' else ''))

    def cases(self, tier):
        models = attachable()
        out = [[m] for m, g in models] + [[]]
        # the same attachment with the new device out of service (u = 0): it must neither move the operating point nor
        # leave residuals behind (an offline device replaces nothing)
        out += [['off:' + m] for m, g in models]
        if tier != 'quick':
            ex = [m for m, g in models if g == 'Exciter']
            gv = [m for m, g in models if g == 'TurbineGov']
            out += [[a, b] for a in ex for b in gv]
        return out

    def execute(self, case):
        out = Outcome()
        seen = set()

        def bad(sig, msg):
            if sig not in seen:
                seen.add(sig)
                out.bad(sig, msg)
        ss = base_system()
        groups = dict(attachable())
        try:
            added = set()
            for k, m in enumerate(case):
                off = m.startswith('off:')
                m = m[4:] if off else m
                for model, params in CHAINS[groups[m]](m):
                    p = dict(params)
                    if p.get('idx') == 'X':
                        p['idx'] = f'X{k}'
                    if off and model == m:
                        p['u'] = 0
                    if (model, p['idx']) in added:
                        continue
                    added.add((model, p['idx']))
                    ss.add(model, p)
            if not ss.setup():
                out.obs = dict(skipped='setup returned False')
                out.nontrivial = False
                return out
            systems.quiet_tds(ss)
            if not ss.PFlow.run():
                out.obs = dict(skipped='power flow failed')
                out.nontrivial = False
                return out
        except Exception as e:
            out.obs = dict(skipped=f'not attachable generically: {type(e).__name__}: {e}'[:200])
            out.nontrivial = False
            return out
        try:
            ss.TDS.init()
        except Exception as e:
            import traceback
            tb = traceback.extract_tb(e.__traceback__)
            bad(f'init_raises:{type(e).__name__}@{tb[-1].name if tb else "?"}:{"+".join(case)}', f'{case}: {type(e).__name__}: {e}')
            out.obs = dict(exc=type(e).__name__)
            return out
        tag = '+'.join(case) or 'base'
        out.obs = dict(models=case, **audit_init(ss, bad, tag, sig_by_owner=True))
        out.transitions = 3
        return out


class Split(Part):
    name = 'split'
    chunk = 1
    timeout = 600.0
    nproc = 8

    def describe(self, tier):
        return ('kundur_full with each dynamic device offline in turn (truthfulness); base system with the static generator G2 '
                'split between two machines for (gammap, gammaq) in {(.5,.5), (.3,.7), (.7,.3)} x machine types')

    def cases(self, tier):
        out = []
        ss = systems.load_case('kundur/kundur_full.xlsx', setup=False)
        for mname, mdl in ss.models.items():
            if mdl.n and mdl.flags.tds and not mdl.flags.pflow and mdl.group in ('SynGen', 'Exciter', 'TurbineGov', 'PSS'):
                for k in range(min(mdl.n, 2)):
                    out.append(dict(kind='offline', model=mname, k=k))
        for types in (('GENROU', 'GENROU'), ('GENROU', 'GENCLS'), ('GENCLS', 'GENROU')):
            out.append(dict(kind='shared_offline', types=list(types)))
        for t in ('GENROU', 'GENCLS'):
            out.append(dict(kind='both_offline', types=[t]))
        for gp, gq in ((0.5, 0.5), (0.3, 0.7), (0.7, 0.3)):
            for types in (('GENROU', 'GENROU'), ('GENROU', 'GENCLS'), ('GENCLS', 'GENCLS')):
                out.append(dict(kind='split', gp=gp, gq=gq, types=list(types)))
        return out

    def execute(self, case):
        out = Outcome()
        seen = set()

        def bad(sig, msg):
            if sig not in seen:
                seen.add(sig)
                out.bad(sig, msg)
        try:
            if case['kind'] == 'offline':
                ss = systems.load_case('kundur/kundur_full.xlsx', setup=False)
                ss.Toggle.u.v[:] = [0] * ss.Toggle.n
                getattr(ss, case['model']).u.v[case['k']] = 0
                ss.setup()
                tag = f'offline:{case["model"]}'
                demand = None if case['model'] in ('Exciter',) else None
            else:
                ss = base_system()
                # remove M2 by rebuilding: second machine shares G2
                import andes
                ss = andes.System(no_output=True, default_config=True)
                b = base_system()
                for mname in ('Bus', 'Line', 'Slack', 'PV', 'PQ'):
                    d = b.models[mname].as_dict()
                    for i in range(b.models[mname].n):
                        ss.add(mname, {k: v[i] for k, v in d.items() if k != 'uid'})
                ss.add('GENROU', dict(idx='M1', bus=1, gen='S1', Vn=110, Sn=100, M=8.0))
                if case['kind'] == 'split':
                    ss.add(case['types'][0], dict(idx='M2a', bus=2, gen='G2', Vn=110, Sn=100, M=6.0, gammap=case['gp'], gammaq=case['gq']))
                    ss.add(case['types'][1], dict(idx='M2b', bus=2, gen='G2', Vn=110, Sn=100, M=5.0, gammap=1 - case['gp'], gammaq=1 - case['gq']))
                elif case['kind'] == 'shared_offline':
                    # an out-of-service spare machine listed after the online one on the same static generator
                    ss.add(case['types'][0], dict(idx='M2a', bus=2, gen='G2', Vn=110, Sn=100, M=6.0))
                    ss.add(case['types'][1], dict(idx='M2b', bus=2, gen='G2', Vn=110, Sn=100, M=5.0, u=0))
                else:
                    # static generator G3 and its machine both out of service
                    ss.PV.u.v[1] = 0
                    ss.add(case['types'][0], dict(idx='M2a', bus=2, gen='G2', Vn=110, Sn=100, M=6.0))
                    ss.add(case['types'][0], dict(idx='M3', bus=3, gen='G3', Vn=110, Sn=100, M=5.0, u=0))
                ss.setup()
                tag = f'{case["kind"]}:{"+".join(case["types"])}'
            systems.quiet_tds(ss)
            if not ss.PFlow.run():
                out.obs = dict(skipped='power flow failed')
                out.nontrivial = False
                return out
            ss.TDS.init()
        except Exception as e:
            import traceback
            tb = traceback.extract_tb(e.__traceback__)
            bad(f'raises:{type(e).__name__}@{tb[-1].name if tb else "?"}:{case["kind"]}', f'{case}: {type(e).__name__}: {e}')
            out.obs = dict(exc=type(e).__name__)
            return out
        # an offline device changes what "consistent data" means: judge truthfulness only; splits must succeed
        consistent = case['kind'] != 'offline'
        out.obs = dict(case=case, **audit_init(ss, bad, tag, demand_success=consistent, undisturbed=consistent))
        if consistent:
            # static generators are replaced, not duplicated or revived: a static generator is on after initialisation
            # only if it was on before and no online dynamic generator took it over
            was_on = {'S1': 1, 'G2': 1, 'G3': 0 if case['kind'] == 'both_offline' else 1}
            taken = set()
            for g in ss.SynGen.get_all_idxes():
                if ss.SynGen.get('u', g, 'v'):
                    taken.add(ss.SynGen.get('gen', g, 'v'))
            for sg, on in was_on.items():
                now = float(ss.StaticGen.get('u', sg, 'v'))
                exp = 1.0 if (on and sg not in taken) else 0.0
                if now != exp:
                    bad(f'static_generator_status_after_init:{case["kind"]}', f'{tag}: static generator {sg} has u = {now} after '
                        f'initialisation, expected {exp} (was {"on" if on else "off"}, {"taken over" if sg in taken else "not taken over"})')
        if case['kind'] == 'split' and ss.TDS.test_ok is True:
            # the two machines together inject the static generator's power
            idx = [list(m.idx.v).index(i) for m, i in ((getattr(ss, case['types'][0]), 'M2a'),)]
        out.transitions = 3
        return out


def switch_params(name):
    """(parameter name, options) of every Switcher of a model: the mode / flag parameters that select equations."""
    import andes
    ss = andes.System(no_output=True, default_config=True)
    mdl = ss.models[name]
    out = []
    for d in mdl.discrete.values():
        if type(d).__name__ == 'Switcher' and getattr(d, 'u', None) is not None:
            out.append((d.u.name, list(d.options)))
    return out


class Modes(Part):
    """Every equation-selecting mode of every attachable model, one deviation from the attach defaults at a time; stabilisers
    with every pair of input modes and local / remote signal buses."""
    name = 'modes'
    chunk = 2
    timeout = 600.0
    nproc = 8

    def describe(self, tier):
        return ('base system + each attachable model x each option of each of its Switcher parameters (single deviations from the '
                'attach defaults); IEEEST: MODE x remote bus in (none, bus 1); ST2CUT: MODE x MODE2 x (both signals local | both '
                'remote on different buses): truthfulness, success under the precondition, undisturbed 1 s run')

    def cases(self, tier):
        out = []
        for m, g in attachable():
            for pname, options in switch_params(m):
                for opt in options:
                    if m in ('IEEEST', 'ST2CUT') and pname in ('MODE', 'MODE2'):
                        continue
                    out.append([m, {pname: opt}])
        for mode in range(1, 7):
            for busr in (None, 1):
                out.append(['IEEEST', dict(MODE=mode, busr=busr)])
        for m1 in range(1, 7):
            for m2 in range(0, 7):
                out.append(['ST2CUT', dict(MODE=m1, MODE2=m2, busr=None, busr2=None, K1=1.0, K2=2.0)])
                out.append(['ST2CUT', dict(MODE=m1, MODE2=m2, busr=1, busr2=3, K1=1.0, K2=2.0)])
        return out

    def execute(self, case):
        out = Outcome()
        seen = set()

        def bad(sig, msg):
            if sig not in seen:
                seen.add(sig)
                out.bad(sig, msg)
        m, over = case
        ss = base_system()
        groups = dict(attachable())
        try:
            for model, params in CHAINS[groups[m]](m):
                p = dict(params)
                if model == m:
                    p.update({k: v for k, v in over.items()})
                ss.add(model, p)
            if not ss.setup():
                out.obs = dict(skipped='setup returned False')
                return out
            systems.quiet_tds(ss)
            if not ss.PFlow.run():
                out.obs = dict(skipped='power flow failed')
                return out
        except Exception as e:
            out.obs = dict(skipped=f'not attachable with these values: {type(e).__name__}: {e}'[:200])
            return out
        try:
            ss.TDS.init()
        except Exception as e:
            import traceback
            tb = traceback.extract_tb(e.__traceback__)
            bad(f'init_raises:{type(e).__name__}@{tb[-1].name if tb else "?"}:{m}', f'{case}: {type(e).__name__}: {e}')
            return out
        key = ','.join(f'{k}={v}' for k, v in over.items() if k.upper().startswith(('MODE', 'BUSR')) or len(over) == 1)
        out.obs = dict(case=case, **audit_init(ss, bad, f'{m}[{key}]', sig_by_owner=True))
        out.nontrivial = True
        out.transitions = 3
        return out


class LoadMix(Part):
    """The static load's time-domain form (constant power / current / impedance mix) must reproduce the power-flow load."""
    name = 'loadmix'
    chunk = 2
    timeout = 600.0
    nproc = 8
    MIX = [(1.0, 0.0, 0.0), (0.0, 1.0, 0.0), (0.0, 0.0, 1.0), (0.2, 0.5, 0.3), (0.3, 0.1, 0.6)]
    SYSTEMS = ['kundur/kundur_full.xlsx', 'ieee14/ieee14_fault.xlsx']

    def describe(self, tier):
        return (f'{self.SYSTEMS}: PQ conversion weights (p2p, p2i, p2z) x (q2q, q2i, q2z) over {self.MIX} (25 combinations, legal: '
                f'each triple sums to 1); power flow, TDS.init, truthfulness + success + undisturbed 1 s run')

    def cases(self, tier):
        import itertools
        return [dict(sys=s, p=list(a), q=list(b)) for s in self.SYSTEMS for a, b in itertools.product(self.MIX, repeat=2)]

    def execute(self, case):
        from vmc import systems
        out = Outcome()
        seen = set()

        def bad(sig, msg):
            if sig not in seen:
                seen.add(sig)
                out.bad(sig, msg)
        ss = systems.load_case(case['sys'], setup=False)
        for m in ('Toggle', 'Fault', 'Alter'):
            mdl = getattr(ss, m)
            if mdl.n:
                mdl.u.v = [0] * mdl.n
        # set on the live configuration object (not through config_option: model configuration is part of the code checksum)
        c = ss.PQ.config
        c.p2p, c.p2i, c.p2z = case['p']
        c.q2q, c.q2i, c.q2z = case['q']
        ss.setup()
        systems.quiet_tds(ss)
        if not ss.PFlow.run():
            out.obs = dict(skipped='power flow failed')
            return out
        same = 'same' if case['p'] == case['q'] else 'different'
        tag = f'mix:{same}_weights_for_P_and_Q'
        try:
            ss.TDS.init()
        except Exception as e:
            bad(f'init_raises:{type(e).__name__}:{tag}', f'{case}: {type(e).__name__}: {e}')
            out.obs = dict(exc=type(e).__name__)
            return out
        out.obs = dict(case=case, **audit_init(ss, bad, tag, demand_success=True))
        out.nontrivial = True
        out.transitions = 3
        return out


def parts(tier):
    return [Stock(), Attach(tier), Split(), LoadMix(), Modes()]


def run(run, only=None):
    for p in parts(run.tier):
        if only and p.name != only:
            continue
        run.run_part(p, audit=2)
    run.assumptions += ['precondition "inside all limiter ranges" = every discrete component that exports zi/zl/zu has zi = 1 for all '
                        'devices at the initial point (decided by the harness from the live flags)',
                        'states flagged check_init = False and anti-windup-pegged states are excluded from the residual, as the '
                        'routine documents', 'offline dynamic devices: only truthfulness is judged']
    rule = ('all stand-alone stock cases; all generically attachable dynamic models on a base system; offline / split variants; '
            'truthfulness unconditional, success + voltage consistency + undisturbed run under the precondition; non-trivial = '
            'system with differential states')
    return run.finish(rule)
