"""
C16 - results do not depend on solver back-end, acceleration options or repetition.

wrapper : one ``Solver`` instance per back-end (klu, umfpack, spsolve); every sequence of <= 3 (4) operations from
          {solve(A_k), linsolve(A_k), linsolve(A_0, multi-column rhs), set worker.factorize, set worker.new_A, clear}
          with A_k in {regular, same pattern new values, other pattern, other pattern with the same shape and number of entries, other size, singular}; every call the
          property names must return x with A x = b (dense numpy check); singular input must not yield a finite x.
routine : small systems x {klu, umfpack, spsolve} x linsolve x ipadd x power-flow method: power-flow solution,
          trajectory at stored instants and eigenvalues equal the default configuration to solver precision.
repeat  : the same executions in separate fresh processes give bit-identical results (compared by the runner's
          determinism audit on full-precision digests).
"""

import itertools

import numpy as np

from vmc.core import Outcome, Part


def mats():
    """name -> (dense A, pattern-compatible-with-A0?)"""
    A0 = np.array([[4.0, 1.0, 0.0], [1.0, 5.0, 2.0], [0.0, 2.0, 6.0]])
    A1 = np.array([[7.0, -1.0, 0.0], [2.0, 3.0, 1.0], [0.0, -2.0, 9.0]])          # same pattern, new values
    A2 = np.array([[4.0, 0.0, 1.0], [0.0, 5.0, 0.0], [1.0, 2.0, 6.0]])           # other pattern
    A3 = np.array([[3.0, 1.0, 0.0, 0.0], [1.0, 4.0, 1.0, 0.0], [0.0, 1.0, 5.0, 1.0], [0.0, 0.0, 1.0, 6.0]])
    S = np.array([[4.0, 1.0, 0.0], [8.0, 2.0, 0.0], [0.0, 2.0, 6.0]])            # singular (rows 1,2 dependent)
    S[1] = 2 * S[0]
    S[1, 2] = 0.0
    S = np.array([[4.0, 1.0, 0.0], [1.0, 5.0, 2.0], [2.0, 10.0, 4.0]])           # row3 = 2*row2: singular, A0 pattern+
    # other pattern with the shape AND the number of stored entries of A0 (a cache keyed on shape + nnz cannot tell them apart)
    A4 = np.array([[4.0, 0.0, 1.0], [1.0, 5.0, 2.0], [0.0, 2.0, 6.0]])
    return dict(A0=A0, A1=A1, A2=A2, A3=A3, S=S, A4=A4)


OPS = ['solve:A0', 'solve:A1', 'solve:A2', 'solve:A3', 'solve:S', 'solve:A4',
       'lin:A0', 'lin:A1', 'lin:A2', 'lin:A3', 'lin:S', 'lin:A4', 'linM:A0',
       'flagF', 'flagN', 'clear']


PATTERN = dict(A0='P0', A1='P0', A2='P2', A3='P3', S='PS', A4='P4')


def stale_symbolic(seq, upto):
    """True if some solve() call among seq[:upto] meets a symbolic factorisation cached for another pattern
    (no factorize flag / clear in between)."""
    cached = None
    for oi in seq[:upto]:
        op = OPS[oi]
        if op in ('flagF', 'clear'):
            cached = None
        elif op.startswith('solve:'):
            pat = PATTERN[op.split(':')[1]]
            if cached is not None and cached != pat:
                return True
            cached = pat
    return False


def to_sp(A):
    from andes.shared import matrix, sparse
    return sparse(matrix(A))


class Wrapper(Part):
    name = 'wrapper'
    chunk = 64
    timeout = 30.0

    def timeout_sig(self, case):
        lib, seq = case
        return f'hang:{lib}:' + ('stale_symbolic_after_pattern_change' if stale_symbolic(seq, len(seq)) else 'other')

    def __init__(self, tier='quick'):
        self.tier = tier

    def describe(self, tier):
        d = 3 if tier == 'quick' else 4
        return f'back-ends klu/umfpack/spsolve x all operation sequences of depth <= {d} over {OPS}'

    def cases(self, tier):
        d = 3 if tier == 'quick' else 4
        out = []
        for lib in ('klu', 'umfpack', 'spsolve'):
            for r in range(1, d + 1):
                for seq in itertools.product(range(len(OPS)), repeat=r):
                    # a sequence that ends in a flag/clear op adds nothing over its prefix
                    if OPS[seq[-1]] in ('flagF', 'flagN', 'clear'):
                        continue
                    out.append([lib, list(seq)])
        return out

    def crash_sig(self, case):
        lib, seq = case
        return f'process_crash:{lib}:' + ('stale_symbolic_after_pattern_change' if stale_symbolic(seq, len(seq)) else 'other')

    def execute(self, case):
        from andes.linsolvers.solverbase import Solver
        from andes.shared import matrix
        lib, seq = case
        out = Outcome()
        M = mats()
        solver = Solver(sparselib=lib)
        w = solver.worker
        refreshed = True          # SciPy: a refresh is pending (first call factorises)
        last_sci = None
        log = []
        for pos, oi in enumerate(seq):
            op = OPS[oi]
            if op == 'flagF':
                w.factorize = True
                refreshed = True
                continue
            if op == 'flagN':
                w.new_A = True
                if lib == 'spsolve':
                    refreshed = True
                continue
            if op == 'clear':
                solver.clear()
                continue
            kind, name = op.split(':')
            A = M[name]
            n = A.shape[0]
            singular = name == 'S'
            if kind == 'linM':
                B = np.array([[1.0, 2.0], [0.5, -1.0], [3.0, 0.25]])
                b = matrix(B)
            else:
                B = np.arange(1.0, n + 1.0) * np.array([1.0, -2.0, 0.5, 3.0][:n])
                b = matrix(B)
            judged = True
            if lib == 'spsolve' and kind == 'solve':
                judged = refreshed          # documented: uses the cached factorisation unless a refresh was requested
                refreshed = False
            try:
                if kind == 'solve':
                    x = solver.solve(to_sp(A), b)
                else:
                    x = solver.linsolve(to_sp(A), b)
                x = np.array(x, dtype=float)
                if kind == 'linM':
                    # the one-shot entry point is used with matrix right-hand sides (EIG): result = b in place or return
                    xb = np.array(b, dtype=float)
                    cand = [xb]
                    if x.size == B.size:
                        cand.append(x.reshape(B.shape))
                        cand.append(x.reshape(B.shape[::-1]).T)
                    ok = any(np.allclose(A @ c, B, atol=1e-9) for c in cand if c.shape == B.shape)
                    if not ok:
                        out.bad(f'matrix_rhs_not_solved:{lib}', f'{lib}.linsolve(A0, 3x2 rhs) after {[OPS[i] for i in seq[:pos]]}: '
                                f'neither the returned array nor the in-place rhs satisfies A X = B')
                    log.append((op, 'M'))
                    continue
                x = x.ravel()
                finite = np.all(np.isfinite(x))
                if singular:
                    if finite and judged:
                        cause = ':stale_symbolic_after_pattern_change' if (kind == 'solve' and stale_symbolic(seq, pos + 1)) else ''
                        out.bad(f'singular_returns_finite:{lib}:{kind}{cause}', f'{lib}.{kind} on a singular matrix returned '
                                f'finite {np.round(x, 6).tolist()} after {[OPS[i] for i in seq[:pos]]}')
                    log.append((op, 'finite' if finite else 'nan'))
                    continue
                if judged:
                    res = np.linalg.norm(A @ x - B) if (finite and x.size == n) else np.inf
                    if not res <= 1e-9 * np.linalg.norm(B):
                        prev = [OPS[i] for i in seq[:pos]]
                        cause = 'stale_symbolic_after_pattern_change' if (kind == 'solve' and stale_symbolic(seq, pos + 1)) \
                            else ('after_singular' if any(o.endswith(':S') for o in prev) else 'other')
                        out.bad(f'wrong_solution:{lib}:{kind}:{cause}', f'{lib}.{kind}({name}) after {prev}: residual {res:.3e}, '
                                f'x={np.round(x, 6).tolist()}')
                    elif kind == 'lin':
                        # callers of the one-shot entry point (EIG reduction, first-step estimate with one state) ignore the
                        # return value and read the right-hand side, which every back-end overwrites with the solution
                        xb = np.array(b, dtype=float).ravel()
                        if xb.size != n or not np.linalg.norm(A @ xb - B) <= 1e-9 * np.linalg.norm(B):
                            out.bad(f'rhs_not_overwritten_with_solution:{lib}', f'{lib}.linsolve({name}, N x 1 matrix rhs): the returned '
                                    f'vector solves the system but the right-hand side still holds {np.round(xb, 6).tolist()}')
                log.append((op, 'ok' if judged else 'cached'))
            except Exception as e:
                if singular or not judged:
                    log.append((op, f'raised {type(e).__name__}'))
                    continue
                prev = [OPS[i] for i in seq[:pos]]
                out.bad(f'raises:{lib}:{kind}:{type(e).__name__}', f'{lib}.{op} after {prev} raised {type(e).__name__}: {e}')
                log.append((op, f'raised {type(e).__name__}'))
                break
        out.obs = dict(log=log)
        out.transitions = len(seq)
        out.nontrivial = len(seq) > 1
        return out


class Routine(Part):
    name = 'routine'
    chunk = 1
    timeout = 600.0
    nproc = 8

    def __init__(self, tier='quick'):
        self.tier = tier

    def describe(self, tier):
        return ('systems {kundur_full + line trip, ieee14_full, smib + fault, ieee14 with an islanded load bus} x sparselib {klu, umfpack, spsolve} x linsolve '
                '{0,1} x ipadd {1,0}; power-flow method {NR, dishonest, NK} on the klu/default column' +
                ('' if tier == 'quick' else '; numba {0,1}'))

    # '#isolated': every line of the load-only bus with the fewest lines is switched off before set-up (an islanded bus
    # goes through the island post-processing of the residuals and of the assembled matrices)
    SYSTEMS = ['kundur/kundur_full.xlsx', 'ieee14/ieee14_linetrip.xlsx', 'smib/SMIB.json', 'ieee14/ieee14_linetrip.xlsx#isolated']

    @staticmethod
    def load(sysname, opts):
        from vmc import systems
        if not sysname.endswith('#isolated'):
            return systems.load_case(sysname, config_option=opts)
        ss = systems.load_case(sysname.split('#')[0], setup=False, config_option=opts)
        gens = set(ss.PV.bus.v) | set(ss.Slack.bus.v)
        deg = {}
        for k in range(ss.Line.n):
            for b in (ss.Line.bus1.v[k], ss.Line.bus2.v[k]):
                deg.setdefault(b, []).append(k)
        cand = sorted((len(v), str(b), b) for b, v in deg.items() if b not in gens)
        for k in deg[cand[0][2]]:
            ss.Line.u.v[k] = 0
        ss.setup()
        return ss

    def cases(self, tier):
        out = []
        for s in self.SYSTEMS:
            for lib in ('klu', 'umfpack', 'spsolve'):
                for lin in (0, 1):
                    for ipadd in (1, 0):
                        out.append(dict(sys=s, lib=lib, linsolve=lin, ipadd=ipadd, method='NR', numba=0))
            for method in ('dishonest', 'NK'):
                out.append(dict(sys=s, lib='klu', linsolve=0, ipadd=1, method=method, numba=0))
            if tier != 'quick':
                out.append(dict(sys=s, lib='klu', linsolve=0, ipadd=1, method='NR', numba=1))
        return out

    def run_one(self, case):
        from vmc import systems
        opts = [f'PFlow.sparselib={case["lib"]}', f'TDS.sparselib={case["lib"]}', f'EIG.sparselib={case["lib"]}',
                f'PFlow.linsolve={case["linsolve"]}', f'TDS.linsolve={case["linsolve"]}',
                f'System.ipadd={case["ipadd"]}', f'PFlow.method={case["method"]}', f'System.numba={case["numba"]}']
        ss = self.load(case['sys'], opts)
        systems.quiet_tds(ss)
        res = dict(libs=(ss.PFlow.solver.sparselib, ss.TDS.solver.sparselib, ss.EIG.solver.sparselib))
        res['pf_ok'] = bool(ss.PFlow.run())
        res['pf'] = np.concatenate([ss.dae.x.copy(), ss.dae.y.copy()])
        try:
            res['eig_ok'] = bool(ss.EIG.run())
            res['mu'] = np.sort_complex(np.asarray(ss.EIG.mu).ravel())
        except Exception as e:
            res['eig_ok'] = f'raised {type(e).__name__}: {e}'
            res['mu'] = None
        # EIG initialises TDS at t=0 and performs one step evaluation; run the trajectory in a fresh system
        ss2 = self.load(case['sys'], opts)
        systems.quiet_tds(ss2)
        ss2.PFlow.run()
        ss2.TDS.config.tf = 2.0
        try:
            res['tds_ok'] = bool(ss2.TDS.run(no_summary=True))
            res['t'] = np.array(ss2.dae.ts.t)
            res['xy'] = np.hstack([np.array(ss2.dae.ts.x), np.array(ss2.dae.ts.y)])
            res['tol'] = float(ss2.TDS.config.tol)
        except Exception as e:
            res['tds_ok'] = f'raised {type(e).__name__}: {e}'
            res['xy'] = None
        return res

    def init_worker(self):
        self.base = {}

    def baseline(self, sysname):
        if sysname not in self.base:
            self.base[sysname] = self.run_one(dict(sys=sysname, lib='klu', linsolve=0, ipadd=1, method='NR', numba=0))
        return self.base[sysname]

    def execute(self, case):
        out = Outcome()
        tag = f'{case["lib"]},linsolve={case["linsolve"]},ipadd={case["ipadd"]},{case["method"]},numba={case["numba"]}'
        cfg = (f'{case["lib"]}' + (',linsolve' if case['linsolve'] else '') + (',ipadd0' if not case['ipadd'] else '') +
               (f',{case["method"]}' if case['method'] != 'NR' else '') + (',numba' if case['numba'] else ''))
        try:
            r = self.run_one(case)
        except Exception as e:
            import traceback
            tb = traceback.extract_tb(e.__traceback__)
            out.bad(f'raises:{type(e).__name__}@{tb[-1].name if tb else "?"}:{cfg}', f'{tag}: {type(e).__name__}: {e}')
            out.obs = dict(exc=type(e).__name__)
            return out
        b = self.baseline(case['sys'])
        if r['libs'] != (case['lib'],) * 3:
            out.bad('requested_backend_not_used', f'{tag}: solvers in use {r["libs"]}')
        if not r['pf_ok']:
            out.bad(f'pflow_fails:{cfg}', f'{tag}: power flow did not converge (default configuration does)')
        else:
            ptol = 1e-8 if case['method'] != 'NK' else 1e-4
            d = float(np.max(np.abs(r['pf'] - b['pf'])))
            if d > ptol:
                out.bad(f'pflow_differs:{cfg}', f'{tag}: power-flow solution differs from default by {d:.2e}')
        if r['eig_ok'] is not True:
            out.bad(f'eig_fails:{cfg}', f'{tag}: EIG.run -> {r["eig_ok"]}')
        elif b['mu'] is not None and case['method'] != 'NK':
            if len(r['mu']) != len(b['mu']):
                out.bad(f'eig_differs:{cfg}', f'{tag}: {len(r["mu"])} vs {len(b["mu"])} eigenvalues')
            else:
                from vmc.checks.c08 import match
                d = match(r['mu'], b['mu'])
                if d > 1e-6:
                    out.bad(f'eig_differs:{cfg}', f'{tag}: eigenvalues differ from default by {d:.2e} (relative)')
        if r['tds_ok'] is not True:
            out.bad(f'tds_fails:{cfg}', f'{tag}: TDS.run -> {r["tds_ok"]}')
        elif b['xy'] is not None and case['method'] != 'NK':
            if r['xy'].shape != b['xy'].shape or not np.array_equal(r['t'], b['t']):
                out.bad(f'tds_grid_differs:{cfg}', f'{tag}: stored grid {r["xy"].shape} vs {b["xy"].shape}')
            else:
                d = float(np.max(np.abs(r['xy'] - b['xy'])))
                if d > 10 * r['tol']:
                    out.bad(f'tds_differs:{cfg}', f'{tag}: trajectory differs from default by {d:.2e} (> 10 tol)')
        import hashlib
        h = hashlib.sha1()
        for k in ('pf', 'mu', 'xy'):
            if r.get(k) is not None:
                h.update(np.ascontiguousarray(r[k]).tobytes())
        out.obs = dict(cfg=tag, digest=h.hexdigest(), pf_ok=r['pf_ok'], eig_ok=str(r['eig_ok']), tds_ok=str(r['tds_ok']))
        out.transitions = 3
        return out


def parts(tier):
    return [Wrapper(tier), Routine(tier)]


def run(run, only=None):
    for p in parts(run.tier):
        if only and p.name != only:
            continue
        run.run_part(p, audit=(4 if p.name == 'wrapper' else 8))
    run.assumptions += ['SciPy solve() without a pending refresh flag is documented to reuse its factorisation and is not judged',
                        'Newton-Krylov results are compared at its own (scipy default) tolerance',
                        'bit-identical repetition is decided by re-running a seed-chosen subset in fresh processes and '
                        'comparing sha1 digests of the raw result bytes']
    rule = ('all operation sequences up to the depth bound on one solver instance per back-end, dense residual oracle; full '
            'product of back-end x linsolve x ipadd (x Newton variant) on three systems against the default configuration; '
            'non-trivial = sequence of >= 2 operations / non-default configuration')
    return run.finish(rule)
