"""
C02 - generated numerical code computes exactly the declared model equations.

values : every shipped model; every generated function that is actually loaded from the pycode on disk (f_update,
         g_update, every sequential service, the non-sequential service batch, every explicit and iterative
         initialisation function) is called on a lattice: 3 (5) generic points with pairwise distinct non-symmetric
         values per argument x a covering design of the discrete inputs (limiter triples, LessThan pairs, switcher
         one-hots, numeric config switches, dae_t in {-1, 0, 1.5}): default, every single deviation, every pair when
         <= 1500 (6000) pairs.  Each returned element is compared with the declared string evaluated by the
         independent evaluator, and the real f_update / g_update are run so that every value is read back from the
         equation array of the variable that declared it.
regen  : code generated twice from the unchanged tree into two fresh homes is functionally identical on the lattice
         (and md5-identical).
stale  : explicit-state exploration of the staleness protocol on a private pycode tree: model variants x pycode file
         states x operations; after every System() construction the loaded code must match the current declarations.
"""

import importlib.util
import itertools
import os
import shutil
import subprocess
import sys
import tempfile

import numpy as np

from vmc.core import Outcome, Part
from vmc.modelharness import ModelDriver, close


def model_names():
    import andes
    from andes.models import file_classes
    out = []
    for fname, cls_list in file_classes:
        out.extend(cls_list)
    return out


def check_model(out, mdl, G, max_pairs, salt=0, calls=None, tag=''):
    """Compare every loaded function of ``mdl`` (or of ``calls``) with the declared strings. Returns stats."""
    calls = calls or mdl.calls
    drv = ModelDriver(mdl, G=G, salt=salt, max_pairs=max_pairs)
    name = mdl.class_name
    nfun = 0
    nel = 0
    guards_total = 0
    guards_both = 0
    seen = set()

    def bad(kind, item, msg):
        sig = f'{tag}value_mismatch:{kind}:{name}.{item}'
        if sig not in seen:
            seen.add(sig)
            out.bad(sig, msg)

    def cover():
        nonlocal guards_total, guards_both
        for g in drv.ev.guards:
            g = np.broadcast_to(np.asarray(g, dtype=bool), (drv.N,))
            guards_total += 1
            if g.any() and (~g).any():
                guards_both += 1

    def point(k):
        return {a: (drv.vals[a][k].item() if hasattr(drv.vals[a][k], 'item') else drv.vals[a][k]) for a in list(drv.vals)[:0]}

    # --- residual functions, positional binding
    for kind, func, argn, vlist in (('f', calls.f, calls.f_args, mdl.cache.states_and_ext),
                                    ('g', calls.g, calls.g_args, mdl.cache.algebs_and_ext)):
        if not callable(func):
            for vn, var in vlist.items():
                if var.e_str is not None:
                    r = drv.ref(var.e_str)
                    if np.any(r != 0):
                        bad(kind, vn, f'{name}: no generated {kind}_update but {vn}.e_str = {var.e_str!r} is non-zero')
            continue
        nfun += 1
        try:
            ret = drv.call(func, argn)
        except Exception as e:
            bad(kind, '*', f'{name}.{kind}_update raised {type(e).__name__}: {e}')
            continue
        if len(ret) != len(vlist):
            bad(kind, '*', f'{name}.{kind}_update returns {len(ret)} values for {len(vlist)} equations')
            continue
        for i, (vn, var) in enumerate(vlist.items()):
            r = drv.ref(var.e_str)
            cover()
            nel += 1
            ok, k = close(ret[i], r)
            if not ok:
                bad(kind, vn, f'{name}.{kind}_update[{i}] for {vn}: generated {np.asarray(ret[i]).ravel()[k if k is not None and np.asarray(ret[i]).size > 1 else 0]!r} '
                    f'vs declared {r[k] if k is not None else "shape"!r}; e_str = {var.e_str!r}')
    # --- delivery through the real f_update / g_update
    if not (mdl.flags.f_num or mdl.flags.g_num or any(b.flags.f_num or b.flags.g_num for b in mdl.blocks.values())):
        try:
            got = drv.deliver()
            for vn, var in mdl.cache.all_vars.items():
                r = drv.ref(var.e_str)
                ok, k = close(got[vn], r)
                if not ok:
                    bad('delivery', vn, f'{name}: equation array of {vn} holds {got[vn][k]!r}, its declared equation gives {r[k]!r}')
        except Exception as e:
            bad('delivery', '*', f'{name}: f_update/g_update raised {type(e).__name__}: {e}')
    # --- services
    for sn, svc in mdl.services.items():
        if svc.v_str is None:
            continue
        if getattr(svc, 'sequential', True) is True:
            func = calls.s.get(sn)
            if not callable(func):
                # constants are stored as values
                r = drv.ref(svc.v_str)
                if func is not None and not np.all(np.isclose(r, func)):
                    bad('service', sn, f'{name}.{sn}: stored constant {func!r} vs declared {svc.v_str!r}')
                continue
            nfun += 1
            try:
                ret = drv.call(func, calls.s_args[sn])
            except Exception as e:
                bad('service', sn, f'{name}.{sn}_svc raised {type(e).__name__}: {e}')
                continue
            r = drv.ref(svc.v_str)
            cover()
            nel += 1
            ok, k = close(ret, r)
            if not ok:
                bad('service', sn, f'{name}.{sn}_svc: generated {np.broadcast_to(ret, r.shape)[k]!r} vs declared {r[k]!r}; '
                    f'v_str = {svc.v_str!r}')
    if callable(calls.sns):
        nfun += 1
        nonseq = [s for s in mdl.services_var_nonseq.values()] if hasattr(mdl, 'services_var_nonseq') else []
        try:
            ret = drv.call(calls.sns, calls.sns_args)
            if len(ret) != len(nonseq):
                bad('sns', '*', f'{name}.sns_update returns {len(ret)} values for {len(nonseq)} services')
            else:
                for i, svc in enumerate(nonseq):
                    r = drv.ref(svc.v_str)
                    nel += 1
                    ok, k = close(ret[i], r)
                    if not ok:
                        bad('sns', svc.name, f'{name}.sns_update[{i}] for {svc.name}: {np.broadcast_to(ret[i], r.shape)[k]!r} vs {r[k]!r}')
        except Exception as e:
            bad('sns', '*', f'{name}.sns_update raised {type(e).__name__}: {e}')
    # --- initialisation
    for vn, var in mdl.cache.all_vars.items():
        if var.v_str is not None and vn in calls.ia:
            func = calls.ia[vn]
            r = drv.ref(var.v_str)
            cover()
            nel += 1
            if callable(func):
                nfun += 1
                try:
                    ret = drv.call(func, calls.ia_args[vn])
                except Exception as e:
                    bad('init', vn, f'{name}.{vn}_ia raised {type(e).__name__}: {e}')
                    continue
            else:
                ret = func
            ok, k = close(ret, r)
            if not ok:
                bad('init', vn, f'{name}.{vn}_ia: generated {np.broadcast_to(ret, r.shape)[k]!r} vs declared {r[k]!r}; '
                    f'v_str = {var.v_str!r}')
    for item in calls.init_seq:
        if isinstance(item, list):
            key = '_'.join(item)
            func = calls.ii.get(key)
            if not callable(func):
                continue
            nfun += 1
            try:
                ret = drv.call(func, calls.ii_args[key])
            except Exception as e:
                bad('init_iter', key, f'{name}.{key}_ii raised {type(e).__name__}: {e}')
                continue
            ret = np.asarray(ret)
            for i, vn in enumerate(item):
                var = mdl.cache.all_vars[vn]
                r = drv.ref(var.v_iter)
                nel += 1
                got = np.asarray(ret[i]).reshape(-1) if ret.ndim > 1 else np.asarray(ret[i])
                ok, k = close(got, r)
                if not ok:
                    bad('init_iter', vn, f'{name}.{key}_ii[{i}] for {vn}: generated vs declared v_iter = {var.v_iter!r} differ')
    return dict(functions=nfun, elements=nel, points=drv.N, groups=len(drv.groups), pairs=drv.pairs_done,
                guards=guards_total, guards_both=guards_both)


class Values(Part):
    name = 'values'
    chunk = 1
    timeout = 900.0

    def __init__(self, tier='quick'):
        self.tier = tier

    def describe(self, tier):
        return ('every shipped model x every loaded generated function; lattice = %d generic points x covering design of '
                'discrete inputs (default, singles, pairs when <= %d)' % ((3, 1500) if tier == 'quick' else (5, 6000)))

    def cases(self, tier):
        return model_names()

    def init_worker(self):
        import andes
        self.ss = andes.System(no_output=True, default_config=True)

    def execute(self, case):
        out = Outcome()
        mdl = self.ss.models[case]
        G, mp = (3, 1500) if self.tier == 'quick' else (5, 6000)
        if mdl.calls.md5 != mdl.get_md5():
            out.bad(f'stale_code_loaded:{case}', f'{case}: loaded code md5 {mdl.calls.md5} != model md5 {mdl.get_md5()}')
        try:
            st = check_model(out, mdl, G, mp)
        except Exception as e:
            import traceback
            out.bad(f'harness_eval_failed:{case}', f'{case}: {type(e).__name__}: {e}\n{traceback.format_exc()[-800:]}')
            st = dict(error=type(e).__name__)
        out.obs = dict(model=case, **st)
        out.transitions = st.get('elements', 1) * st.get('points', 1)
        out.nontrivial = st.get('elements', 0) > 0
        return out


REGEN_CODE = r'''
import sys, json
import andes
andes.config_logger(stream_level=50)
ss = andes.System(no_output=True, default_config=True)
print("MODELS", len(ss.models))
'''


class Regen(Part):
    name = 'regen'
    chunk = 1
    timeout = 1500.0
    nproc = 1

    def __init__(self, tier='quick'):
        self.tier = tier

    def describe(self, tier):
        return 'generate the code of all models into a second fresh HOME from the unchanged tree; compare with the first per model'

    def cases(self, tier):
        return ['all']

    def execute(self, case):
        import andes
        from vmc import env
        out = Outcome()
        home2 = tempfile.mkdtemp(prefix='regen-', dir=os.environ.get('TMPDIR'))
        e = dict(os.environ)
        e.update(HOME=home2)
        r = subprocess.run([sys.executable, '-c', REGEN_CODE], env=e, capture_output=True, text=True, cwd=home2)
        p2 = os.path.join(home2, '.andes', 'pycode')
        if r.returncode != 0 or not os.path.isdir(p2):
            out.bad('regeneration_failed', f'second generation failed: {r.stderr[-500:]}')
            out.obs = dict(ok=False)
            return out
        p1 = os.path.join(os.environ['HOME'], '.andes', 'pycode')
        ss = andes.System(no_output=True, default_config=True)
        ndiff_text = 0
        nmodels = 0
        for name, mdl in ss.models.items():
            f1, f2 = os.path.join(p1, name + '.py'), os.path.join(p2, name + '.py')
            if not (os.path.isfile(f1) and os.path.isfile(f2)):
                out.bad(f'regen_file_missing:{name}', f'{name}.py missing in one of the generations')
                continue
            nmodels += 1
            t1, t2 = open(f1).read(), open(f2).read()
            if t1 == t2:
                continue
            ndiff_text += 1
            # functional comparison: load the second module and compare all functions on the lattice
            spec = importlib.util.spec_from_file_location(f'regen_{name}', f2)
            mod = importlib.util.module_from_spec(spec)
            spec.loader.exec_module(mod)
            if getattr(mod, 'md5', None) != mdl.calls.md5:
                out.bad(f'regen_md5_differs:{name}', f'{name}: md5 differs between two generations of the unchanged model')
            calls2 = rebuild_calls(mdl, mod)
            check_model(out, mdl, 3, 300, calls=calls2, tag='regen_')
        shutil.rmtree(home2, ignore_errors=True)
        out.obs = dict(models=nmodels, textual_differences=ndiff_text)
        out.transitions = nmodels
        return out


def rebuild_calls(mdl, mod):
    """A ModelCall-like object populated from another generated module, the way System._expand_pycode does it."""
    from andes.shared import dilled_vars

    class C:
        pass
    c = C()
    c.md5 = getattr(mod, 'md5', None)
    for item in dilled_vars:
        setattr(c, item, mod.__dict__[item])
    c.f = mod.__dict__.get('f_update')
    c.g = mod.__dict__.get('g_update')
    c.s = {}
    for inst in mdl.services.values():
        if inst.v_str is not None and inst.sequential is True:
            c.s[inst.name] = mod.__dict__[f'{inst.name}_svc']
    c.sns = mod.__dict__.get('sns_update')
    c.ia = {v.name: mod.__dict__[f'{v.name}_ia'] for v in mdl.cache.all_vars.values() if v.v_str is not None}
    c.ii, c.ij = {}, {}
    for item in c.init_seq:
        if isinstance(item, list):
            key = '_'.join(item)
            c.ii[key] = mod.__dict__[key + '_ii']
            c.ij[key] = mod.__dict__[key + '_ij']
    c.j = {jn: mod.__dict__.get(f'{jn}_update') for jn in c.j_names}
    return c


class Md5(Part):
    """The staleness detector must react to every declaration that reaches the generated code."""
    name = 'md5'
    chunk = 8
    timeout = 300.0

    def describe(self, tier):
        return ('every model x every declared string (e_str, v_str, v_iter of every variable incl. absent -> present, v_str and '
                'sequential flag of every service, exported flags of every discrete component, parameter and config names): '
                'editing it must change Model.get_md5()')

    def cases(self, tier):
        return model_names()

    def init_worker(self):
        import andes
        self.ss = andes.System(no_output=True, default_config=True)

    def execute(self, case):
        out = Outcome()
        mdl = self.ss.models[case]
        base = mdl.get_md5()
        n = 0
        seen = set()

        def probe(kind, label, setter, restore):
            nonlocal n
            n += 1
            try:
                setter()
                changed = mdl.get_md5() != base
            finally:
                restore()
            if not changed and kind not in seen:
                seen.add(kind)
                out.bad(f'md5_insensitive:{kind}', f'{case}: editing {label} does not change the model checksum, so stale '
                        f'generated code would keep being loaded')
        for vn, var in mdl.cache.all_vars.items():
            for attr in ('e_str', 'v_str', 'v_iter'):
                old = getattr(var, attr, None)
                others = [a for a in ('e_str', 'v_str', 'v_iter') if a != attr and getattr(var, a, None) is not None]
                kind = f'{attr}:{"absent" if old is None else "edited"}:with_{"+".join(others) or "nothing"}'
                new = '1.5' if old is None else f'({old}) * 1.0625'
                probe(kind, f'{vn}.{attr}', lambda v=var, a=attr, x=new: setattr(v, a, x),
                      lambda v=var, a=attr, x=old: setattr(v, a, x))
        for sn, svc in mdl.services.items():
            old = svc.v_str
            new = '1.5' if old is None else f'({old}) * 1.0625'
            probe(f'service_v_str:{"absent" if old is None else "edited"}', f'service {sn}.v_str',
                  lambda v=svc, x=new: setattr(v, 'v_str', x), lambda v=svc, x=old: setattr(v, 'v_str', x))
            if hasattr(svc, 'sequential'):
                olds = svc.sequential
                probe('service_sequential', f'service {sn}.sequential', lambda v=svc, x=(not olds): setattr(v, 'sequential', x),
                      lambda v=svc, x=olds: setattr(v, 'sequential', x))
        for dn, d in mdl.discrete.items():
            oldf = list(d.export_flags)
            if oldf:
                probe('discrete_flags', f'discrete {dn}.export_flags', lambda v=d, x=oldf[:-1]: setattr(v, 'export_flags', x),
                      lambda v=d, x=oldf: setattr(v, 'export_flags', x))
        out.obs = dict(model=case, probes=n, md5=base)
        out.transitions = n
        out.nontrivial = n > 0
        return out


def parts(tier):
    from vmc.checks.c02_stale import Stale
    return [Values(tier), Md5(), Regen(tier), Stale(tier)]


def run(run, only=None):
    for p in parts(run.tier):
        if only and p.name != only:
            continue
        run.run_part(p, audit=2 if p.name == 'values' else 0)
    run.assumptions += ['the reference evaluator (vmc/refs/expr.py: python eval + a 30-entry function vocabulary) is trusted',
                        'argument space covered on a lattice: generic distinct values per argument plus a covering design of all '
                        'discrete inputs; agreement of two closed-form expressions there is strong evidence, not a proof, for '
                        'transcendental terms', 'models with user-defined numeric calls (f_numeric / g_numeric) are exercised '
                        'only through their generated functions']
    rule = ('all models x all loaded generated functions x lattice (generic points x covering design of discrete inputs); '
            'regeneration compared per model; staleness protocol explored as operation sequences; non-trivial = model with '
            '>= 1 generated element')
    return run.finish(rule)
