"""
C04 - every accepted simulation step satisfies the implicit integration rule.

Real integrator, real models, environment-deviation exploration: the decision point is each call of the step
routine; the default answer is the real step; a deviation is a *forced rejection* of that one call obtained by
running the real Newton loop with an unsatisfiable tolerance (so the genuine restore / shrink path executes).
All executions with 0 and 1 (2 in thorough) deviations over the first K calls, for every combination of
method x fixt x g_scale x honest x tstep, on a classical machine system and on kundur_full (GENROU + exciters +
governors with anti-windup), with and without a disturbance.
Oracle per accepted step (x0, f0 as used by the integrator; x1, y1; f1, g1 re-evaluated at the accepted point):
row-wise |T (x1-x0) - h/2 (f1+f0)| (resp. h f1) and |g1| bounded by 2 sum_j |Ac_ij| (|inc_j| + tol 1e-6) with Ac, inc
the iteration matrix and last increment the run itself used; pegged anti-windup states exempt.
Rejected step => x, y, f bit-identical; h <= tstep when fixed; t + h <= tf; time never decreases; run returns True.
"""

import itertools

import numpy as np

from vmc.core import Outcome, Part
from vmc import systems
from vmc.rearm import Checkpoint


def dense(M):
    from andes.shared import matrix
    return np.array(matrix(M))


def build(name):
    if name == 'smib':
        ss = systems.smib(n_toggle=2, n_alter=1, n_fault=1, setup=False)
        ss.add('Alter', dict(idx='AT0', model='GENCLS', dev='GEN', src='M', attr='v', method='*', amount=1.0, t=-1, u=0))
        ss.setup()
    else:
        ss = systems.load_case('kundur/kundur_full.xlsx', setup=False)
        # replace the stock event by harness-controlled ones
        ss.Toggle.u.v[:] = [0] * ss.Toggle.n
        ss.add('Toggle', dict(idx='TX0', model='Line', dev='Line_8', t=-1, u=0))
        ss.add('Toggle', dict(idx='TX1', model='Line', dev='Line_8', t=-1, u=0))
        ss.add('Fault', dict(idx='FX0', bus=ss.Bus.idx.v[7], tf=-1, tc=-1, xf=0.05, u=0))
        # time constants changed while the simulation runs: inertia of a machine, a time constant of its exciter
        ss.add('Alter', dict(idx='AT0', model='GENROU', dev=ss.GENROU.idx.v[0], src='M', attr='v', method='*', amount=1.0,
                             t=-1, u=0))
        ss.add('Alter', dict(idx='AT1', model='EXDC2', dev=ss.EXDC2.idx.v[0], src='TA', attr='v', method='*', amount=1.0,
                             t=-1, u=0))
        ss.setup()
        systems.quiet_tds(ss)
    assert ss.PFlow.run()
    return ss


SCHEDULES = {
    'none': [],
    'trip': [('toggle', 0, 0.1)],
    'trip+reclose': [('toggle', 0, 0.1), ('toggle', 1, 0.2)],
    'fault': [('fault', 0, 0.1, 0.15)],
    # a time constant of a differential equation altered during the run (by an Alter device; in the resumed
    # executions additionally through Model.alter between the two segments)
    'alterT': [('alterT', 0, 0.1, 2.0)],
    'alterT2': [('alterT', 0, 0.1, 0.6), ('alterT', 1, 0.1, 3.0)],
}


def t_ref(ss):
    """Time constants in effect, read from the parameters of the models (not from dae.Tf)."""
    T = np.ones(ss.dae.n)
    for mdl in ss.exist.tds.values():
        if mdl.n == 0:
            continue
        for st in mdl.states.values():
            if st.t_const is not None and len(st.a):
                T[st.a] = st.t_const.v
    return T


def apply_schedule(ss, name, sysname):
    k0 = 0 if sysname == 'smib' else ss.Toggle.n - 2
    for ev in SCHEDULES[name]:
        if ev[0] == 'alterT':
            names = [str(x) for x in ss.Alter.idx.v]
            if 'AT%d' % ev[1] not in names:
                continue         # smib has one alterable time constant only
            i = names.index('AT%d' % ev[1])
            ss.Alter.t.v[i] = ev[2]
            ss.Alter.amount.v[i] = ev[3]
            ss.Alter.u.v[i] = 1
        elif ev[0] == 'toggle':
            i = k0 + ev[1]
            if sysname == 'smib':
                ss.Toggle.dev.v[i] = 'L3'
            ss.Toggle.t.v[i] = ev[2]
            ss.Toggle.u.v[i] = 1
        else:
            i = ss.Fault.n - 1
            ss.Fault.tf.v[i] = ev[2]
            ss.Fault.tc.v[i] = ev[3]
            ss.Fault.u.v[i] = 1


class Steps(Part):
    name = 'steps'
    chunk = 4
    timeout = 300.0
    K = 12

    def __init__(self, tier='quick'):
        self.tier = tier

    def describe(self, tier):
        k = 1 if tier == 'quick' else 2
        return (f'systems smib (GENCLS) and kundur_full; schedules {list(SCHEDULES)} (alterT: time constants changed by Alter devices and, in resumed runs, by Model.alter between segments; the rule is judged with the time constants of the parameters, not dae.Tf); method x fixt x g_scale x honest x tstep in '
                f'(1/30, 0.01); forced rejections: all subsets of size <= {k} of the first {self.K} step calls; tf = 0.4 s; each '
                f'configuration also interrupted at 0.2 s and resumed (without and with one forced rejection after the resume)')

    def cases(self, tier):
        kmax = 1 if tier == 'quick' else 2
        out = []
        for sysname in ('smib', 'kundur'):
            for sched in SCHEDULES:
                for method, fixt, gs, honest, tstep in itertools.product(('trapezoid', 'backeuler'), (1, 0), (1, 0), (0, 1),
                                                                         (1 / 30, 0.01)):
                    if tier == 'quick':
                        # deviation bounding on the configuration product too: default + single deviations
                        dflt = ('trapezoid', 1, 1, 0, 1 / 30)
                        ndev = sum(a != b for a, b in zip((method, fixt, gs, honest, tstep), dflt))
                        if ndev > 1:
                            continue
                    base = dict(sys=sysname, sched=sched, method=method, fixt=fixt, g_scale=gs, honest=honest, tstep=tstep)
                    out.append(dict(base, rejects=[]))
                    # the same run interrupted at 0.2 s and resumed (second TDS.run with a larger tf): the steps after the
                    # resume point are accepted steps like any other
                    out.append(dict(base, rejects=[], resume=1))
                    out.append(dict(base, rejects=[7], resume=1))
                    pts = range(self.K)
                    if tier == 'quick' and sched in ('trip+reclose',) and sysname == 'kundur':
                        pts = range(0, self.K, 2)
                    for r in range(1, kmax + 1):
                        for sub in itertools.combinations(pts, r):
                            out.append(dict(base, rejects=list(sub)))
        return out

    def init_worker(self):
        self.sys = {}
        self.cp = {}
        for name in ('smib', 'kundur'):
            self.sys[name] = build(name)
            self.cp[name] = Checkpoint(self.sys[name])

    def execute(self, case):
        out = Outcome()
        ss = self.sys[case['sys']]
        self.cp[case['sys']].restore()
        tds = ss.TDS
        dae = ss.dae
        c = tds.config
        c.method = case['method']
        tds.set_method(case['method'])
        c.fixt, c.g_scale, c.honest, c.tstep = case['fixt'], case['g_scale'], case['honest'], case['tstep']
        c.tf = 0.4
        c.criteria = 0
        apply_schedule(ss, case['sched'], case['sys'])
        rejects = set(case['rejects'])
        seen = set()

        def bad(sig, msg):
            if sig not in seen:
                seen.add(sig)
                out.bad(sig, msg)
        calls = dict(n=0, accepted=0, rejected=0, worst=0.0)
        trapz = case['method'] == 'trapezoid'
        orig = tds.itm_step
        models = None
        times = []

        def wrapped():
            k = calls['n']
            calls['n'] += 1
            t, h = float(dae.t), float(tds.h)
            x0, y0 = dae.x.copy(), dae.y.copy()
            fpre = dae.f.copy()
            if c.fixt and h > c.tstep * (1 + 1e-12):
                bad('step_exceeds_tstep', f'h = {h!r} > tstep = {c.tstep!r} at t = {t!r}')
            if t > c.tf * (1 + 1e-12):
                bad('step_past_tf', f't = {t!r} beyond tf')
            if times and t < times[-1] - 1e-15:
                bad('time_decreased_across_accepted_steps', f't = {t!r} after {times[-1]!r}')
            if k in rejects:
                keep = c.tol
                c.tol = -1.0
                try:
                    ok = orig()
                finally:
                    c.tol = keep
            else:
                ok = orig()
            if not ok:
                calls['rejected'] += 1
                if not (np.array_equal(dae.x, x0) and np.array_equal(dae.y, y0)):
                    bad('rejected_step_changed_state', f'step to t = {t!r} rejected but x/y differ from before by '
                        f'{max(np.max(np.abs(dae.x - x0)) if len(x0) else 0, np.max(np.abs(dae.y - y0))):.3e}')
                if not np.array_equal(dae.f, fpre):
                    bad('rejected_step_changed_f', f'step to t = {t!r} rejected but dae.f differs from before')
                return ok
            calls['accepted'] += 1
            # the point in time a step is taken to is the previous accepted time plus the step size used in the rule
            if times and t > 0.0 and abs((t - times[-1]) - h) > 1e-9 * max(1.0, abs(t)):
                bad('time_advance_differs_from_step_size', f'accepted step to t = {t!r} from t = {times[-1]!r} was integrated with '
                    f'h = {h!r}')
            times.append(t)
            if t == 0.0 or h == 0.0:
                return ok            # the t = 0 call integrates nothing
            # ---- residual of the implicit rule at the accepted point
            x1, y1 = dae.x.copy(), dae.y.copy()
            f0_used = np.array(tds.f0).copy()
            Ac = dense(tds.Ac)
            inc = np.abs(np.array(tds.inc, dtype=float).ravel())
            f_keep, g_keep = dae.f.copy(), dae.g.copy()
            niter_keep = tds.niter
            tds.fg_update(models=ss.exist.pflow_tds)
            f1, g1 = dae.f.copy(), dae.g.copy()
            moved = (not np.array_equal(dae.x, x1)) or (not np.array_equal(dae.y, y1))
            dae.f[:] = f_keep
            dae.g[:] = g_keep
            tds.niter = niter_keep
            n = dae.n
            Tf = t_ref(ss)
            if not np.array_equal(Tf, np.array(dae.Tf)):
                bad('integrator_time_constants_differ_from_parameters', f'at t = {t!r}: dae.Tf differs from the time constants '
                    f'of the model parameters at states {[dae.x_name[i] for i in np.flatnonzero(Tf != np.array(dae.Tf))[:4]]}')
            if trapz:
                q = Tf * (x1 - x0) - 0.5 * h * (f1 + f0_used)
            else:
                q = Tf * (x1 - x0) - h * f1
            gq = (c.g_scale * h * g1) if c.g_scale > 0 else g1
            res = np.concatenate([q, gq])
            bound = 2.0 * (np.abs(Ac) @ (inc + c.tol * 1e-6)) + 1e-12
            exempt = set()
            for aw in ss.antiwindups:
                for key, _, _ in getattr(aw, 'x_set', []):
                    exempt |= {int(a) for a in np.atleast_1d(key)}
            ratio = np.abs(res) / bound
            for a in exempt:
                ratio[a] = 0.0
            if moved:
                return ok        # the re-evaluation pegged a limiter at the accepted point: not a plain residual
            w = float(np.max(ratio)) if len(ratio) else 0.0
            calls['worst'] = max(calls['worst'], w)
            if w > 1.0:
                i = int(np.argmax(ratio))
                name = dae.xy_name[i] if i < len(dae.xy_name) else i
                kind = 'differential' if i < n else 'algebraic'
                near = any(abs(t - ev[2]) < 2e-4 or (len(ev) > 3 and abs(t - ev[3]) < 2e-4) for ev in SCHEDULES[case['sched']])
                bad(f'implicit_rule_violated:{kind}:{case["method"]}', f'accepted step to t = {t!r} (h = {h:.6g}): residual of '
                    f'{name} = {res[i]:.3e}, bound {bound[i]:.3e} from the last increment '
                    f'({"at an event" if near else "regular step"})')
            return ok
        tds.itm_step = wrapped
        try:
            if case.get('resume'):
                c.tf = 0.2
                ok = tds.run(no_summary=True)
                n_first = len(dae.ts.t)
                last_first = (float(dae.ts.t[-1]), np.array(dae.ts.x[-1]).copy()) if n_first else None
                if case['sched'].startswith('alterT'):
                    # second channel: the public alteration call between two segments
                    if case['sys'] == 'smib':
                        ss.GENCLS.alter('M', 'GEN', 1.7 * float(ss.GENCLS.M.v[0]))
                    else:
                        ss.GENROU.alter('M', ss.GENROU.idx.v[1], 0.5 * float(ss.GENROU.get('M', ss.GENROU.idx.v[1], 'vin')))
                        ss.TGOV1.alter('T1', ss.TGOV1.idx.v[0], 2.5 * float(ss.TGOV1.T1.v[0]))
                c.tf = 0.4
                ok = tds.run(no_summary=True) and ok
                if last_first is not None and len(dae.ts.t) >= n_first:
                    if float(dae.ts.t[n_first - 1]) != last_first[0] or not np.array_equal(np.array(dae.ts.x[n_first - 1]), last_first[1]):
                        bad('stored_sample_changed_by_resume', f'the sample stored at t = {last_first[0]!r} before the interruption '
                            f'is different after the run was resumed')
            else:
                ok = tds.run(no_summary=True)
        except Exception as e:
            import traceback
            tb = traceback.extract_tb(e.__traceback__)
            bad(f'raises:{type(e).__name__}@{tb[-1].name if tb else "?"}', f'{type(e).__name__}: {e}')
            ok = None
        if ok is False:
            bad('run_failed', f'run returned False (t = {float(dae.t)!r}, {tds.err_msg!r}) with rejections forced at {sorted(rejects)}')
        if ok and float(dae.t) != c.tf:
            bad('success_not_at_tf', f'dae.t = {float(dae.t)!r} != tf')
        out.obs = dict(calls=calls['n'], accepted=calls['accepted'], rejected=calls['rejected'], worst=round(calls['worst'], 6),
                       xend=[round(float(v), 10) for v in dae.x[:6]])
        out.transitions = calls['n']
        out.nontrivial = calls['accepted'] > 3
        return out


def parts(tier):
    return [Steps(tier)]


def run(run, only=None):
    for p in parts(run.tier):
        run.run_part(p, audit=6)
    run.assumptions += ['the residual bound is 2 |Ac| (|inc| + tol 1e-6) with Ac and inc taken from the run itself: convergence is '
                        'declared on the increment with a possibly stale Jacobian',
                        'f0 is the value the integrator used (left by the previous step), as the rule is defined by the code',
                        'the re-evaluation of f, g at the accepted point is undone (f, g, niter restored); steps where it pegs a '
                        'limiter are not judged',
                        'natural (unforced) non-convergence appears only where the disturbance alphabet provokes it']
    rule = ('configuration product (deviation-bounded in quick) x disturbance schedules x all forced-rejection subsets of the '
            'first K step calls, on the real integrator; per accepted step a residual bound, per rejected step bit-identity; '
            'non-trivial = more than 3 accepted steps')
    return run.finish(rule)
