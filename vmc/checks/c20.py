"""
C20 - the configuration in effect is the one the user supplied.

seam   : real ``System._update_config_object`` + real ``Config`` + real routine constructors on a stub
         system: every assignment of {file value, option value} (each possibly absent) to <= 2 (3) fields
         from a small field alphabet (float / int-choice / string-choice fields in two sections), with and
         without an rc file on disk, plus malformed option strings.
system : real ``System`` objects: every configurable field of the system, routines and models given a distinct
         legal value through one channel at a time (file, options, options on top of a file), precedence,
         save -> load round trip of values and types, dict channel, run-time ``Config.update``.
effect : the step size actually taken equals TDS.tstep supplied through each channel.
Reference model: a plain dict with precedence option > file > default and the documented text->number rule.
"""

import configparser
import itertools
import os
import tempfile

from vmc.core import Outcome, Part

# ------------------------------------------------------------------ reference model


def ref_parse(text):
    """Documented coercion of rc/option text: int if it reads as int, else float, else the string."""
    if not isinstance(text, str):
        return text
    try:
        return int(text)
    except ValueError:
        try:
            return float(text)
        except ValueError:
            return text


def same(a, b):
    return type(a) is type(b) and a == b


# field alphabet for the seam part: (section, field) -> (legal values, illegal values)
FIELDS = {
    ('TDS', 'tol'): (['1e-06', '0.001'], []),
    ('TDS', 'fixt'): (['0', '1'], ['2']),
    ('TDS', 'method'): (['backeuler', 'trapezoid'], ['rk4']),
    ('TDS', 'tstep'): (['0.01', '1'], []),
    ('PFlow', 'sparselib'): (['umfpack', 'spsolve'], ['foo']),
    ('PFlow', 'tol'): (['1e-08'], []),
}

# malformed = violates the documented SECTION.FIELD=VALUE shape; unknown sections/fields are legal text and may be
# accepted or rejected (the property does not say), so the oracle accepts both for them
MALFORMED = ['TDS.tol', 'TDS.tol=1=2', 'TDStol=1', 'TDS.tol.x=1', 'Nope.tol=1', 'TDS.nofield=3']


def write_rc(path, filevals, all_sections):
    cp = configparser.ConfigParser()
    for sec in all_sections:
        cp[sec] = {}
    for (sec, fld), v in filevals.items():
        if sec not in cp:
            cp[sec] = {}
        cp[sec][fld] = v
    with open(path, 'w') as f:
        cp.write(f)


class Seam(Part):
    name = 'seam'
    chunk = 64
    timeout = 120.0

    def __init__(self, tier='quick'):
        self.tier = tier

    def describe(self, tier):
        k = 2 if tier == 'quick' else 3
        return (f'<= {k} fields out of {len(FIELDS)} (two sections); each field gets file value in (absent, legal..., '
                f'illegal...) x option value in (absent, legal..., illegal...); rc file present with all sections / '
                f'present with only the used sections / absent; + {len(MALFORMED)} malformed option strings')

    def cases(self, tier):
        k = 2 if tier == 'quick' else 3
        out = []
        keys = sorted(FIELDS)
        for r in range(1, k + 1):
            for combo in itertools.combinations(keys, r):
                choices = []
                for key in combo:
                    legal, illegal = FIELDS[key]
                    vals = [None] + legal + illegal
                    if r >= 2:
                        vals = [None] + legal[:1] + illegal[:1]
                    if r >= 3:
                        vals = [None] + legal[:1]
                    choices.append([(fv, ov) for fv in vals for ov in vals if not (fv is None and ov is None)])
                for assign in itertools.product(*choices):
                    fv = {f'{s}.{f}': a[0] for (s, f), a in zip(combo, assign) if a[0] is not None}
                    ov = {f'{s}.{f}': a[1] for (s, f), a in zip(combo, assign) if a[1] is not None}
                    if fv:
                        for rcmode in ('full', 'partial'):
                            out.append(dict(file=fv, opt=ov, rc=rcmode))
                    else:
                        out.append(dict(file=fv, opt=ov, rc='none'))
                        out.append(dict(file=fv, opt=ov, rc='full'))
                        out.append(dict(file=fv, opt=ov, rc='other'))
        for m in MALFORMED:
            for rc in ('none', 'full'):
                out.append(dict(file={}, opt={}, rc=rc, raw=[m]))
        return out

    def init_worker(self):
        self.tmp = tempfile.mkdtemp(prefix='c20-')

    def execute(self, case):
        from andes.system import System, load_config_rc
        from andes.routines.tds import TDS
        from andes.routines.pflow import PFlow
        out = Outcome()
        filevals = {tuple(k.split('.')): v for k, v in case['file'].items()}
        optvals = {tuple(k.split('.')): v for k, v in case['opt'].items()}
        rc_path = None
        if case['rc'] != 'none':
            rc_path = os.path.join(self.tmp, f'rc-{os.getpid()}.rc')
            secs = {'full': ['System', 'TDS', 'PFlow', 'EIG'], 'partial': [], 'other': ['System']}[case['rc']]
            write_rc(rc_path, filevals, secs)
        options = case.get('raw') or [f'{s}.{f}={v}' for (s, f), v in optvals.items()]

        class Stub:
            pass
        stub = Stub()
        stub.options = {'config_option': list(options)}
        stub._config_object = load_config_rc(rc_path)
        # expectation
        illegal = False
        for key in set(filevals) | set(optvals):
            val = optvals.get(key, filevals.get(key))
            if val in FIELDS[key][1]:
                illegal = True
        malformed = bool(case.get('raw')) and case['raw'][0] not in ('Nope.tol=1', 'TDS.nofield=3')
        try:
            System._update_config_object(stub)
            tds = TDS(system=stub, config=stub._config_object)
            tds.config.check()
            pf = PFlow(system=stub, config=stub._config_object)
            pf.config.check()
        except ValueError as e:
            if not (illegal or malformed):
                out.bad('legal_input_rejected', f'ValueError on legal input: {e}', case=case)
            out.obs = dict(raised='ValueError')
            return out
        except Exception as e:
            if case.get('raw') and case['raw'][0] in ('Nope.tol=1', 'TDS.nofield=3'):
                out.obs = dict(raised=type(e).__name__)
                return out
            cls = _classify(case, optvals)
            out.bad(f'config_raises:{type(e).__name__}:{cls}', f'{type(e).__name__}: {e}', case=case)
            out.obs = dict(raised=type(e).__name__)
            return out
        if illegal:
            out.bad('illegal_value_accepted', 'value outside the declared alternatives accepted', case=case)
        if malformed:
            out.bad('malformed_option_accepted', f'malformed option {case["raw"]} accepted', case=case)
        got = {}
        for key in set(filevals) | set(optvals):
            sec, fld = key
            cfg = tds.config if sec == 'TDS' else pf.config
            eff = getattr(cfg, fld)
            exp = ref_parse(optvals.get(key, filevals.get(key)))
            got['.'.join(key)] = eff
            if not same(eff, exp):
                src = 'option' if key in optvals else 'file'
                out.bad(f'value_not_in_effect:{src}{"_over_file" if key in optvals and key in filevals else ""}',
                        f'{sec}.{fld} in effect {eff!r}, supplied {exp!r}', case=case)
            if cfg.as_dict(refresh=True)[fld] != eff:
                out.bad('as_dict_disagrees', f'{sec}.{fld}')
        out.obs = got
        out.nontrivial = bool(optvals) and bool(filevals)
        return out


def _classify(case, optvals):
    secs = [s for s, f in optvals]
    dup = len(secs) != len(set(secs))
    if case['rc'] == 'none':
        return 'no_rc_file,two_options_one_section' if dup else 'no_rc_file'
    if case['rc'] in ('partial', 'other'):
        return 'rc_file_lacks_section'
    return 'rc_file_full'


# ------------------------------------------------------------------ whole-system part

SKIP = {('System', 'numba'), ('System', 'numba_parallel'), ('System', 'numba_nopython'), ('System', 'dime_enabled'),
        ('System', 'seed'), ('System', 'yapf_pycode')}


def alt_value(default, alt, salt=0):
    """A legal value different from the default (and from other salts)."""
    if isinstance(alt, (tuple, list, set, frozenset)) and not isinstance(alt, str):
        others = [a for a in sorted(alt, key=repr) if a != default]
        if others:
            return others[salt % len(others)]
        return default
    if isinstance(default, bool):
        return default
    if isinstance(default, int):
        # salt 2: a signed integer (text forms '-3' / '+3' must stay integers)
        return -(abs(default) + 3) if salt >= 2 else default + 1 + salt
    if isinstance(default, float):
        return -(abs(default) * 1.25 + 0.375) if salt >= 2 else default * 1.25 + 0.125 + salt
    if isinstance(default, str):
        return default
    return default


def all_fields(ss):
    out = []
    secs = [('System', ss.config)] + [(n, r.config) for n, r in ss.routines.items()] + \
           [(n, m.config) for n, m in ss.models.items()]
    for name, cfg in secs:
        for fld, val in cfg.as_dict(refresh=True).items():
            if (name, fld) in SKIP:
                continue
            out.append((name, fld, val, cfg._alt.get(fld)))
    return out


class WholeSystem(Part):
    name = 'system'
    chunk = 1
    timeout = 300.0

    def describe(self, tier):
        return ('real System objects: every field of System + 3 routines + all models set to a distinct legal value '
                'through {rc file, option strings without rc file, option strings over an rc file with other values, '
                'option strings over an rc file lacking the sections}; save_config -> new System round trip; dict '
                'channel; Config.update with legal and illegal values for every field with declared alternatives; histories '
                '[save | print]? -> (Config.update | attribute assignment)(all fields) -> save_config -> new System; two Systems in '
                'one process over one unchanged rc file ({file, options, dict} then {file, options}): the second is judged')

    def cases(self, tier):
        out = [dict(mode=m, salt=s) for m in ('file', 'options_norc', 'options_over_file', 'options_over_partial',
                                              'roundtrip', 'dict', 'update', 'update_roundtrip',
                                              'save_update_roundtrip', 'print_update_roundtrip', 'attr_roundtrip',
                                              'save_attr_roundtrip', 'print_attr_roundtrip') for s in (0, 1, 2)]
        # histories of two Systems in one process that share one unchanged rc file: what the first was given through the
        # other channels must not be in effect in the second
        for first in ('file', 'options', 'dict'):
            for second in ('file', 'options'):
                for s in (0, 1):
                    out.append(dict(mode=f'then:{first}:{second}', salt=s))
        return out

    def init_worker(self):
        self.tmp = tempfile.mkdtemp(prefix='c20s-')

    def build(self, **kw):
        import andes
        return andes.System(no_output=True, no_undill=True, **kw)

    def execute(self, case):
        out = Outcome()
        mode, salt = case['mode'], case['salt']
        base = self.build(default_config=True)
        fields = all_fields(base)
        want = {(s, f): alt_value(v, alt, salt) for s, f, v, alt in fields}
        other = {(s, f): alt_value(v, alt, salt + 1) for s, f, v, alt in fields}
        rc = os.path.join(self.tmp, f'{mode}-{salt}-{os.getpid()}.rc')

        def write(vals, sections=None):
            cp = configparser.ConfigParser()
            for (s, f), v in vals.items():
                if sections is not None and s not in sections:
                    continue
                if s not in cp:
                    cp[s] = {}
                cp[s][f] = str(v)
            with open(rc, 'w') as fh:
                cp.write(fh)
        opts = [f'{s}.{f}={v}' for (s, f), v in want.items()]
        try:
            if mode == 'file':
                write(want)
                ss = self.build(config_path=rc)
            elif mode == 'options_norc':
                ss = self.build(default_config=True, config_option=opts)
            elif mode == 'options_over_file':
                write(other)
                ss = self.build(config_path=rc, config_option=opts)
            elif mode == 'options_over_partial':
                write(other, sections={'System'})
                ss = self.build(config_path=rc, config_option=opts)
            elif mode == 'roundtrip':
                write(want)
                s1 = self.build(config_path=rc)
                rc2 = rc + '.saved'
                s1.save_config(rc2, overwrite=True)
                ss = self.build(config_path=rc2)
                # types must survive
                for (s, f, v, alt) in fields:
                    a = _cfg(s1, s).__dict__[f]
                    b = _cfg(ss, s).__dict__[f]
                    if not same(a, b):
                        out.bad('roundtrip_changes_value_or_type', f'{s}.{f}: {a!r} ({type(a).__name__}) -> '
                                f'{b!r} ({type(b).__name__}) after save_config + load', field=f'{s}.{f}')
                        break
            elif mode in ('update_roundtrip', 'save_update_roundtrip', 'print_update_roundtrip', 'attr_roundtrip',
                          'save_attr_roundtrip', 'print_attr_roundtrip'):
                # history: [save | print]? -> Config.update(dict) on every section -> save_config -> new System
                s1 = self.build(default_config=True)
                rc0 = rc + '.first'
                if mode.startswith('save_'):
                    s1.save_config(rc0, overwrite=True)
                elif mode.startswith('print_'):
                    for sec in {s for s, f in want}:
                        repr(_cfg(s1, sec))
                        _cfg(s1, sec).doc()
                by_sec = {}
                for (s, f), v in want.items():
                    by_sec.setdefault(s, {})[f] = v
                for sec, vals in by_sec.items():
                    if 'attr' in mode:
                        # the everyday channel: plain attribute assignment on the live configuration object
                        for f_, v_ in vals.items():
                            setattr(_cfg(s1, sec), f_, v_)
                    else:
                        _cfg(s1, sec).update(vals)
                rc2 = rc + '.saved'
                s1.save_config(rc2, overwrite=True)
                ss = self.build(config_path=rc2)
            elif mode.startswith('then:'):
                _, first, second = mode.split(':')
                third = {(s, f): alt_value(v, alt, salt + 2) for s, f, v, alt in fields}
                write(want if second == 'file' else other)
                if first == 'file':
                    s_a = self.build(config_path=rc)
                elif first == 'options':
                    s_a = self.build(config_path=rc, config_option=[f'{s}.{f}={v}' for (s, f), v in third.items()])
                else:
                    s_a = self.build(config_path=rc, config={f: v for (s, f), v in third.items() if s == 'System'})
                del s_a
                ss = self.build(config_path=rc) if second == 'file' else self.build(config_path=rc, config_option=opts)
            elif mode == 'dict':
                sysvals = {f: v for (s, f), v in want.items() if s == 'System'}
                ss = self.build(default_config=True, config=sysvals)
                want = {(s, f): v for (s, f), v in want.items() if s == 'System'}
            elif mode == 'update':
                ss = base
                nbad = 0
                self._nleft = 0
                for (s, f, v, alt) in fields:
                    cfg = _cfg(ss, s)
                    if isinstance(alt, (tuple, set, frozenset)) and not isinstance(alt, str):
                        legal = alt_value(v, alt, salt)
                        cfg.update({f: legal})
                        if cfg.__dict__[f] != legal:
                            out.bad('update_not_in_effect', f'{s}.{f}')
                        illegal = 'zzz' if isinstance(v, str) else 987
                        try:
                            cfg.update({f: illegal})
                            nbad += 1
                            if nbad == 1:
                                out.bad('update_accepts_illegal_value',
                                        f'{s}.config.update({f}={illegal!r}) accepted; alternatives {alt}')
                        except ValueError:
                            # rejected means not in effect: the field still holds the last accepted value
                            if cfg.__dict__[f] != legal:
                                nleft = getattr(self, '_nleft', 0) + 1
                                self._nleft = nleft
                                if nleft == 1:
                                    out.bad('rejected_value_left_in_effect', f'{s}.config.update({f}={illegal!r}) raised ValueError, yet '
                                            f'{s}.config.{f} is now {cfg.__dict__[f]!r} (was {legal!r})')
                        cfg.__dict__[f] = v
                out.obs = dict(mode=mode, illegal_accepted=nbad)
                return out
        except Exception as e:
            import traceback
            tb = traceback.extract_tb(e.__traceback__)
            where = tb[-1].name if tb else '?'
            out.bad(f'system_construction_raises:{type(e).__name__}:{mode}',
                    f'{type(e).__name__}: {e} (in {where})')
            out.obs = dict(mode=mode, raised=type(e).__name__)
            return out
        wrong = []
        wrong_type = []
        for (s, f), v in want.items():
            eff = _cfg(ss, s).__dict__.get(f)
            exp = ref_parse(str(v))
            if not (eff == exp):
                wrong.append((f'{s}.{f}', repr(eff), repr(exp)))
            elif isinstance(exp, int) and not isinstance(exp, bool) and isinstance(eff, float):
                # an integer given as text ('3', '-3') is an integer in effect (the parsing rule every channel documents)
                wrong_type.append((f'{s}.{f}', repr(eff), repr(exp)))
        if wrong:
            out.bad(f'value_not_in_effect:{mode}', f'{len(wrong)} fields, e.g. {wrong[:4]}')
        if wrong_type:
            out.bad(f'integer_in_effect_as_float:{mode}', f'{len(wrong_type)} fields, e.g. {wrong_type[:4]}')
        out.obs = dict(mode=mode, fields=len(want), wrong=len(wrong))
        out.transitions = len(want)
        return out


def _cfg(ss, sec):
    if sec == 'System':
        return ss.config
    if sec in ss.routines:
        return ss.routines[sec].config
    return ss.models[sec].config


class Effect(Part):
    """Behavioural effect: the step actually taken is the configured one, whatever the channel."""
    name = 'effect'
    chunk = 1
    timeout = 120.0

    def describe(self, tier):
        return 'TDS.tstep in {0.05, 0.02} x channel in {file, option, option over file}: observed step == value'

    def cases(self, tier):
        return [dict(h=h, ch=ch) for h in ('0.05', '0.02') for ch in ('file', 'option', 'option_over_file')]

    def init_worker(self):
        self.tmp = tempfile.mkdtemp(prefix='c20e-')

    def execute(self, case):
        import andes
        import numpy as np
        out = Outcome()
        rc = os.path.join(self.tmp, f'e-{os.getpid()}.rc')
        kw = dict(no_output=True)
        if case['ch'] in ('file', 'option_over_file'):
            cp = configparser.ConfigParser()
            cp['TDS'] = {'tstep': case['h'] if case['ch'] == 'file' else '0.1', 'no_tqdm': '1', 'tf': '0.5'}
            with open(rc, 'w') as f:
                cp.write(f)
            kw['config_path'] = rc
        else:
            kw['default_config'] = True
        if case['ch'] != 'file':
            kw['config_option'] = [f'TDS.tstep={case["h"]}']
        try:
            ss = andes.System(**kw)
        except Exception as e:
            out.bad(f'system_construction_raises:{type(e).__name__}:{case["ch"]}', str(e))
            out.obs = dict(raised=type(e).__name__)
            return out
        ss.add('Bus', dict(idx=1, Vn=110))
        ss.add('Bus', dict(idx=2, Vn=110))
        ss.add('Line', dict(idx='L1', bus1=1, bus2=2, x=0.2, r=0.01, Vn1=110, Vn2=110))
        ss.add('Slack', dict(idx='S', bus=1, Vn=110))
        ss.add('PQ', dict(idx='P', bus=2, p0=0.3, q0=0.1, Vn=110))
        ss.setup()
        ss.PFlow.run()
        ss.TDS.config.tf = 0.5
        ss.TDS.config.no_tqdm = 1
        ss.TDS.run(no_summary=True)
        t = np.array(ss.dae.ts.t)
        d = np.diff(t)
        h = float(case['h'])
        if len(d) < 3 or abs(np.median(d) - h) > 1e-9:
            out.bad('step_not_configured_value', f'median step {np.median(d) if len(d) else None} vs tstep {h} via {case["ch"]}')
        out.obs = dict(n=len(t), h=float(np.median(d)) if len(d) else None)
        return out


def parts(tier):
    return [Seam(tier), WholeSystem(), Effect()]


def run(run, only=None):
    for p in parts(run.tier):
        if only and p.name != only:
            continue
        run.run_part(p)
    run.assumptions += ['numeric-looking text is coerced to int/float (documented behaviour of rc files)',
                        'System.numba*, dime_enabled, seed, yapf_pycode are excluded from the all-fields runs '
                        '(they change process-global behaviour)',
                        'dict vs option conflicts are not in the alphabet (precedence between them is not specified)']
    rule = ('exhaustive assignment of file/option values (absent, legal, illegal) to <= k fields x rc-file presence at '
            'the real option-merging seam; all-fields runs of real System objects per channel; non-trivial = a value '
            'supplied through >= 1 channel; distinct = distinct observation digest')
    return run.finish(rule)
