"""
C02 part 'stale' (see c02.py): explicit-state exploration of the generated-code staleness protocol.

State   = (declared variant of model PQ in this process, state of the pycode file PQ.py in a private pycode tree)
Ops     = C  construct ``andes.System()`` (loads pycode, regenerates what it finds stale)
          V0..V3 switch the declared model: original / bus equation edited / service v_str edited / config key added
          D  delete PQ.py        T  overwrite the md5 line of PQ.py        X  truncate PQ.py in the middle
Oracle  = after every successful C: PQ.calls.md5 == PQ.get_md5() and every loaded PQ function agrees with the
          *current* declarations on the lattice (check_model); a construction that raises is "not silent" and accepted;
          two neighbouring models (Shunt, PV) must stay correct throughout.
"""

import itertools
import os
import shutil
import sys
import tempfile

from vmc.core import Outcome, Part

OPS = ['C', 'V0', 'V1', 'V2', 'V3', 'D', 'T', 'X']


def patch_pq(k):
    """Install variant k of the PQ model declaration (class-level, affects construction and code generation)."""
    import andes.models.static.pq as pqmod
    cls = pqmod.PQ
    if not hasattr(cls, '_vmc_orig_init'):
        cls._vmc_orig_init = cls.__init__
    orig = cls._vmc_orig_init

    def init(self, system=None, config=None):
        orig(self, system, config)
        if k == 1:
            self.a.e_str = '1.25 * (' + self.a.e_str + ')'
        elif k == 2:
            self.Req.v_str = '1.5 * (' + self.Req.v_str + ')'
        elif k == 3:
            self.config.add(vmc_extra=1)
            self.v.e_str = self.v.e_str + ' + vmc_extra * 0.125'
    cls.__init__ = init if k else orig


class Stale(Part):
    name = 'stale'
    chunk = 1
    timeout = 900.0
    nproc = 6

    def __init__(self, tier='quick'):
        self.tier = tier

    def describe(self, tier):
        if tier == 'quick':
            return (f'operation sequences over {OPS}: all single perturbations, all (variant, file-op) and (file-op, variant) '
                    f'pairs, variant pairs, perturbation + construct, edit-construct-revert, edit-construct-file fault; each followed by '
                    f'a construction')
        return f'all operation sequences of depth <= 3 over {OPS} followed by a construction, on a private pycode tree'

    def cases(self, tier):
        if tier == 'quick':
            V, F = [2, 3, 4], [5, 6, 7]
            out = [[i] for i in V + F]
            out += [[v, f] for v in V for f in F] + [[f, v] for v in V for f in F]
            out += [[a, b] for a in V for b in V if a != b] + [[v, 0] for v in V] + [[f, 0] for f in F]
            out += [[v, 0, 1] for v in V]        # edit, construct, revert, construct
            out += [[v, 0, f] for v in V for f in F]   # edit, construct (regenerates in this process), file fault, construct
            return out
        d = 3
        out = []
        for r in range(1, d + 1):
            for seq in itertools.product(range(len(OPS)), repeat=r):
                names = [OPS[i] for i in seq]
                # a sequence is only interesting if it contains a perturbation
                if all(n == 'C' for n in names):
                    continue
                out.append(list(seq))
        return out

    def init_worker(self):
        src = os.path.join(os.environ['HOME'], '.andes', 'pycode')
        self.home = tempfile.mkdtemp(prefix='stale-home-', dir=os.environ.get('TMPDIR'))
        self.pristine = os.path.join(self.home, 'pristine')
        shutil.copytree(src, self.pristine, ignore=shutil.ignore_patterns('__pycache__'))
        os.environ['HOME'] = self.home
        for k in [k for k in sys.modules if k == 'pycode' or k.startswith('pycode.')]:
            del sys.modules[k]

    def reset_tree(self):
        dst = os.path.join(self.home, '.andes', 'pycode')
        shutil.rmtree(dst, ignore_errors=True)
        shutil.copytree(self.pristine, dst)
        for k in [k for k in sys.modules if k == 'pycode' or k.startswith('pycode.')]:
            del sys.modules[k]

    def execute(self, case):
        import andes
        from vmc.checks.c02 import check_model
        out = Outcome()
        self.reset_tree()
        patch_pq(0)
        pq_file = os.path.join(self.home, '.andes', 'pycode', 'PQ.py')
        log = []
        variant = 0
        seq = [OPS[i] for i in case] + ['C']

        def construct(stage):
            n_before = len(out.violations)
            try:
                _construct(stage)
            finally:
                # A PQ.py cut in the middle *after this process had imported the complete file*: importlib.reload keeps the
                # names (and the md5) of the complete module and only re-defines what survives in the first half. That is one
                # recorded finding (see known_findings.json); whatever symptom it produces gets one signature.
                prev = [i for i in range(stage) if seq[i] == 'C']
                if prev and 'X' in seq[prev[-1] + 1:stage]:
                    for v in out.violations[n_before:]:
                        v['detail'] = dict(v.get('detail') or {}, symptom=v['sig'])
                        v['sig'] = 'torn_file_trusted_after_reload'

        def _construct(stage):
            try:
                ss = andes.System(no_output=True, default_config=True)
            except Exception as e:
                log.append(f'C raised {type(e).__name__}')
                return
            mdl = ss.PQ
            # a System that came back without usable code must fail loudly when used, never compute with it
            if not callable(ss.PV.calls.g) or not callable(mdl.calls.g):
                try:
                    ss.add('Bus', dict(idx=1))
                    ss.add('Bus', dict(idx=2))
                    ss.add('Line', dict(idx='L', bus1=1, bus2=2, x=0.1))
                    ss.add('Slack', dict(idx='S', bus=1))
                    ss.add('PQ', dict(idx='P', bus=2, p0=0.2, q0=0.05))
                    ss.setup()
                    ok = ss.PFlow.run()
                    out.bad('system_without_code_runs', f'after {seq[:stage + 1]}: System() returned without loaded code and '
                            f'PFlow.run() -> {ok}')
                except Exception as e:
                    log.append(f'C unusable, use raises {type(e).__name__}')
                return
            if mdl.calls.md5 != mdl.get_md5():
                out.bad('stale_code_in_use:md5', f'after {seq[:stage + 1]}: PQ code md5 {mdl.calls.md5} != declaration md5 '
                        f'{mdl.get_md5()} (variant {variant})')
            n0 = len(out.violations)
            try:
                for m in (mdl, ss.Shunt, ss.PV):
                    check_model(out, m, 3, 50, tag=f'stale[v{variant}]_')
            except Exception as e:
                out.bad('stale_code_in_use:unusable', f'after {seq[:stage + 1]}: loaded code cannot be evaluated: '
                        f'{type(e).__name__}: {e}')
            log.append('C ok' if len(out.violations) == n0 else 'C MISMATCH')
        try:
            for stage, op in enumerate(seq):
                if op == 'C':
                    construct(stage)
                elif op.startswith('V'):
                    variant = int(op[1])
                    patch_pq(variant)
                    log.append(op)
                elif op == 'D':
                    if os.path.exists(pq_file):
                        os.remove(pq_file)
                    log.append(op)
                elif op == 'T':
                    if os.path.exists(pq_file):
                        txt = open(pq_file).read().splitlines(True)
                        txt = [('md5 = "0123456789abcdef0123456789abcdef"\n' if ln.startswith('md5 = ') else ln) for ln in txt]
                        open(pq_file, 'w').writelines(txt)
                    log.append(op)
                elif op == 'X':
                    if os.path.exists(pq_file):
                        txt = open(pq_file).read()
                        open(pq_file, 'w').write(txt[:len(txt) // 2])
                    log.append(op)
        finally:
            patch_pq(0)
        out.obs = dict(log=log)
        out.transitions = len(seq)
        return out
