"""
C10 - variable addressing is a bijection and external links follow device indices.

A 4-bus dynamic system (Bus, Line, Slack, PV, PQ, Shunt, GENCLS, GENROU, EXDC2, TGOV1, BusFreq, Toggle, Output) is
assembled through ``System.add`` in every order from a bounded family (base, reversed, every within-model
permutation of each multi-device model, round-robin interleaving, and all pairs of those deviations in thorough),
with index types {int, str, mixed, auto} and collated storage switched on for one model at a time.
After set-up and again after dynamic initialisation the address map is checked to be a bijection onto the
state / algebraic vectors, names are checked, and a sentinel vector (x[k] = 1000 + k, y[k] = -(1000 + k)) is pushed
through ``vars_to_models``: every internal variable, every external variable of every referrer, Model.get and
Group.get must read the sentinel of the device named by the index field, resolved by the harness from the
device specification (not from the registry under test).
"""

import itertools

import numpy as np

from vmc.core import Outcome, Part
from vmc import systems


def spec(idx_type):
    """Device specification list: (model, key, params, refs) with refs = {param: key of target}."""
    def ix(key, k):
        if idx_type == 'int':
            return k
        if idx_type == 'int0':
            return k - 1          # zero-based numbering: 0 is a legal idx
        if idx_type == 'str':
            return key
        if idx_type == 'mixed':
            return k if k % 2 else key
        return key       # 'auto' handled at add time for unreferenced devices
    d = []
    for k in range(4):
        d.append(('Bus', f'b{k + 1}', dict(Vn=110.0 * (k + 1), name=f'B{k + 1}'), {}))
    d.append(('Line', 'l1', dict(x=0.1, r=0.01, Vn1=110.0, Vn2=220.0), dict(bus1='b1', bus2='b2')))
    d.append(('Line', 'l2', dict(x=0.12, r=0.01, Vn1=220.0, Vn2=330.0), dict(bus1='b2', bus2='b3')))
    d.append(('Line', 'l3', dict(x=0.14, r=0.01, Vn1=330.0, Vn2=440.0), dict(bus1='b3', bus2='b4')))
    d.append(('Slack', 's1', dict(v0=1.0, a0=0.0, Vn=110.0), dict(bus='b1')))
    d.append(('PV', 'g2', dict(p0=0.3, v0=1.01, Vn=220.0), dict(bus='b2')))
    d.append(('PV', 'g3', dict(p0=0.2, v0=1.02, Vn=330.0), dict(bus='b3')))
    d.append(('PQ', 'p3', dict(p0=0.3, q0=0.1, Vn=330.0), dict(bus='b3')))
    d.append(('PQ', 'p4', dict(p0=0.2, q0=0.05, Vn=440.0), dict(bus='b4')))
    d.append(('Shunt', 'h4', dict(b=0.05, Vn=440.0), dict(bus='b4')))
    d.append(('GENCLS', 'm2', dict(M=6.0, D=1.0, Vn=220.0), dict(bus='b2', gen='g2')))
    d.append(('GENROU', 'm3', dict(M=5.0, D=1.0, Vn=330.0), dict(bus='b3', gen='g3')))
    d.append(('GENROU', 'm1', dict(M=7.0, D=1.0, Vn=110.0), dict(bus='b1', gen='s1')))
    d.append(('EXDC2', 'e3', dict(), dict(syn='m3')))
    d.append(('EXDC2', 'e1', dict(), dict(syn='m1')))
    d.append(('TGOV1', 't3', dict(), dict(syn='m3')))
    # a governor with an optional second machine (optional group link)
    d.append(('IEEEG1', 't1', dict(K1=0.2, K3=0.3, K6=0.2, K8=0.3), dict(syn='m1', syn2='m2')))
    d.append(('BusFreq', 'f2', dict(), dict(bus='b2')))
    d.append(('BusFreq', 'f4', dict(), dict(bus='b4')))
    d.append(('Toggle', 'tg', dict(model='Line', t=-1.0, u=0), dict(dev='l3')))
    # give group-unique numbers
    num = {}
    count = {}
    out = []
    for model, key, params, refs in d:
        grp = GROUP[model]
        count[grp] = count.get(grp, 0) + 1
        num[key] = ix(key, count[grp])
    for model, key, params, refs in d:
        out.append((model, key, num[key], params, refs))
    return out, num


GROUP = dict(Bus='ACTopology', Line='ACLine', Slack='StaticGen', PV='StaticGen', PQ='StaticLoad', Shunt='StaticShunt',
             GENCLS='SynGen', GENROU='SynGen', EXDC2='Exciter', TGOV1='TurbineGov', IEEEG1='TurbineGov', BusFreq='FreqMeasurement',
             Toggle='TimedEvent')


def orders(nitems, models, tier):
    """Bounded family of add orders (lists of positions)."""
    base = list(range(nitems))
    fam = {'base': base, 'reversed': base[::-1]}
    by = {}
    for pos, m in enumerate(models):
        by.setdefault(m, []).append(pos)
    # round-robin interleaving
    rr = []
    lists = [list(v) for v in by.values()]
    while any(lists):
        for lst in lists:
            if lst:
                rr.append(lst.pop(0))
    fam['roundrobin'] = rr
    fam['dynamic_first'] = sorted(base, key=lambda p: (models[p] in ('Bus', 'Line', 'Slack', 'PV', 'PQ', 'Shunt'), p))
    for m, poss in by.items():
        if len(poss) < 2:
            continue
        for perm in itertools.permutations(poss):
            if list(perm) == poss:
                continue
            o = list(base)
            for slot, src in zip(poss, perm):
                o[slot] = src
            fam[f'perm:{m}:{"".join(str(poss.index(p)) for p in perm)}'] = o
    return fam


class Addressing(Part):
    name = 'addr'
    chunk = 1
    timeout = 300.0
    nproc = 8

    def __init__(self, tier='quick'):
        self.tier = tier

    def describe(self, tier):
        return ('20-device 4-bus dynamic system; add orders: base, reversed, round-robin, dynamic-first, every within-model '
                'permutation (Bus 4!, Line 3!, PV, PQ, GENROU, EXDC2, BusFreq); idx types int/int0 (zero-based)/str/mixed/auto; collate on '
                'for GENROU / EXDC2 / TGOV1 / GENCLS / BusFreq / none; both phases' + ('; plus all pairs of order deviations' if tier != 'quick' else ''))

    def cases(self, tier):
        sp, _ = spec('str')
        models = [m for m, *_ in sp]
        fam = orders(len(sp), models, tier)
        out = []
        for oname in fam:
            for it in ('int', 'int0', 'str', 'mixed'):
                if tier == 'quick' and oname.startswith('perm:Bus') and it != 'str':
                    continue
                out.append(dict(order=oname, idx=it, collate=None))
        out.append(dict(order='base', idx='auto', collate=None))
        for col in ('GENROU', 'EXDC2', 'TGOV1', 'GENCLS', 'BusFreq'):
            for oname in ('base', 'reversed', 'roundrobin'):
                out.append(dict(order=oname, idx='str', collate=col))
        if tier != 'quick':
            names = [n for n in fam if n.startswith('perm:') and not n.startswith('perm:Bus')]
            for a, b in itertools.combinations(names, 2):
                if a.split(':')[1] != b.split(':')[1]:
                    out.append(dict(order=f'{a}+{b}', idx='mixed', collate=None))
        return out

    def execute(self, case):
        import andes
        out = Outcome()
        sp, num = spec(case['idx'] if case['idx'] != 'auto' else 'str')
        models = [m for m, *_ in sp]
        fam = orders(len(sp), models, self.tier)
        if '+' in case['order']:
            a, b = case['order'].split('+')
            oa, ob = fam[a], fam[b]
            order = [ob[i] if oa[i] == i else oa[i] for i in range(len(sp))]
        else:
            order = fam[case['order']]
        ss = andes.System(no_output=True, default_config=True)
        referenced = {t for _, _, _, _, refs in sp for t in refs.values()}
        actual = {}
        for pos in order:
            model, key, idx, params, refs = sp[pos]
            p = dict(params)
            for rp, tgt in refs.items():
                p[rp] = actual.get(tgt, num[tgt])
            if case['idx'] == 'auto' and key not in referenced:
                got = ss.add(model, p)
            else:
                got = ss.add(model, dict(p, idx=idx))
            actual[key] = got
        ss.add('Output', dict(model='GENROU', varname='omega', dev=actual['m3']))
        if case['collate']:
            getattr(ss, case['collate']).flags.collate = True
        try:
            if not ss.setup():
                out.bad('setup_failed', 'setup returned False on a consistent system')
            self.audit(out, ss, sp, actual, 'pflow')
            systems.quiet_tds(ss)
            ok = ss.PFlow.run()
            ss.TDS.init()
            self.audit(out, ss, sp, actual, 'tds')
            if not ok:
                out.bad('pflow_failed', 'power flow did not converge on the reference system')
            obs = dict(n=int(ss.dae.n), m=int(ss.dae.m), xn=list(ss.dae.x_name)[:6], ok=bool(ok),
                       xidx=list(map(int, getattr(ss.Output, 'xidx', []))))
            # output selection resolves to the address of that variable of that device
            want = int(ss.GENROU.omega.a[list(ss.GENROU.idx.v).index(actual['m3'])])
            if list(map(int, ss.Output.xidx)) != [want]:
                out.bad('output_selection_address_wrong', f'Output.xidx={list(ss.Output.xidx)}, omega of m3 is at {want}')
        except Exception as e:
            import traceback
            tb = traceback.extract_tb(e.__traceback__)
            out.bad(f'raises:{type(e).__name__}@{tb[-1].name if tb else "?"}', f'{type(e).__name__}: {e}')
            obs = dict(exc=type(e).__name__)
        out.obs = obs
        out.transitions = len(sp) + 2
        return out

    def audit(self, out, ss, sp, actual, phase):
        from andes.core.var import ExtVar
        dae = ss.dae
        keyof = {v: k for k, v in actual.items()}
        owner = {'x': {}, 'y': {}}
        addr_of = {}            # (model, var, idx) -> (code, addr)
        pop = ss.exist.pflow if phase == 'pflow' else ss.exist.pflow_tds
        for mname, mdl in pop.items():
            if mdl.n == 0:
                continue
            for vname, var in list(mdl.states.items()) + list(mdl.algebs.items()):
                code = 'x' if vname in mdl.states else 'y'
                a = np.asarray(var.a, dtype=int)
                if len(a) != mdl.n:
                    out.bad(f'address_count_wrong:{phase}', f'{mname}.{vname} has {len(a)} addresses for {mdl.n} devices')
                    continue
                for i, ad in enumerate(a):
                    ad = int(ad)
                    if ad in owner[code]:
                        out.bad(f'address_shared:{phase}', f'{code}[{ad}] owned by {owner[code][ad]} and '
                                f'{(mname, vname, mdl.idx.v[i])}')
                    owner[code][ad] = (mname, vname, mdl.idx.v[i])
                    addr_of[(mname, vname, mdl.idx.v[i])] = (code, ad)
        for code, size in (('x', dae.n), ('y', dae.m)):
            if set(owner[code]) != set(range(size)):
                miss = sorted(set(range(size)) - set(owner[code]))[:5]
                extra = sorted(set(owner[code]) - set(range(size)))[:5]
                out.bad(f'addresses_not_onto:{phase}', f'{code}: size {size}, unowned {miss}, out of range {extra}')
            names = dae.x_name if code == 'x' else dae.y_name
            for ad, (mname, vname, idx) in owner[code].items():
                if ad >= len(names):
                    continue
                nm = names[ad]
                tail = str(idx).replace('_', ' ')
                if not (isinstance(nm, str) and nm.startswith(vname + ' ') and nm.endswith(tail) and
                        (mname in nm or mname in str(idx))):
                    out.bad(f'slot_name_wrong:{phase}', f'{code}_name[{ad}]={nm!r} but the slot belongs to {vname} of '
                            f'{mname} {idx!r}')
                    break
        # sentinel
        x0, y0 = dae.x.copy(), dae.y.copy()
        dae.x[:] = 1000.0 + np.arange(dae.n)
        dae.y[:] = -(1000.0 + np.arange(dae.m))
        ss.vars_to_models()

        def sentinel(code, ad):
            return (1000.0 + ad) if code == 'x' else -(1000.0 + ad)
        try:
            for (mname, vname, idx), (code, ad) in addr_of.items():
                mdl = ss.models[mname]
                uid = list(mdl.idx.v).index(idx)
                var = getattr(mdl, vname)
                if float(var.v[uid]) != sentinel(code, ad):
                    out.bad(f'internal_var_reads_wrong_slot:{phase}', f'{mname}.{vname}[{idx!r}] reads {var.v[uid]}, '
                            f'own slot {code}[{ad}]')
                    break
                if float(mdl.get(vname, idx, 'v')) != sentinel(code, ad):
                    out.bad(f'model_get_wrong:{phase}', f'{mname}.get({vname}, {idx!r})')
                    break
                grp = ss.groups[mdl.group]
                if vname in grp.common_vars and float(grp.get(vname, idx, 'v')) != sentinel(code, ad):
                    out.bad(f'group_get_wrong:{phase}', f'{mdl.group}.get({vname}, {idx!r})')
                    break
            # external variables: resolved by the harness from the specification
            by_group = {(GROUP[model], actual[key]): model for model, key, *_ in sp}
            for mname, mdl in pop.items():
                if mdl.n == 0:
                    continue
                for vname, ext in list(mdl.states_ext.items()) + list(mdl.algebs_ext.items()):
                    if not isinstance(ext, ExtVar) or ext.indexer is None:
                        continue
                    ind = ext.indexer
                    grp = GROUP.get(ext.model, ext.model)
                    for i, dev_idx in enumerate(mdl.idx.v):
                        tgt = ind.v[i] if i < len(ind.v) else None
                        if tgt is None or (grp, tgt) not in by_group:
                            continue
                        tmodel = by_group[(grp, tgt)]
                        if ext.model not in (tmodel, grp):
                            continue
                        key = (tmodel, ext.src, tgt)
                        if key not in addr_of:
                            continue
                        code, ad = addr_of[key]
                        if int(ext.a[i]) != ad or float(ext.v[i]) != sentinel(code, ad):
                            out.bad(f'external_var_wrong_device:{phase}', f'{mname}.{vname} of {dev_idx!r} -> '
                                    f'{ext.model}.{ext.src}[{tgt!r}]: address {ext.a[i]} value {ext.v[i]}, expected '
                                    f'{code}[{ad}]')
                            raise StopIteration
        except StopIteration:
            pass
        finally:
            dae.x[:] = x0
            dae.y[:] = y0
            ss.vars_to_models()
        # external parameters equal the source parameter of the named device
        vn = {actual[key]: params.get('Vn') for model, key, _, params, _ in sp if model == 'Bus'}
        for mname, mdl in pop.items():
            if mdl.n == 0:
                continue
            for pname, ep in mdl.params_ext.items():
                if ep.model != 'Bus' or ep.src != 'Vn' or ep.indexer is None:
                    continue
                for i in range(mdl.n):
                    b = ep.indexer.v[i]
                    if b in vn and float(ep.v[i]) != vn[b]:
                        out.bad(f'ext_param_wrong_device:{phase}', f'{mname}.{pname}[{mdl.idx.v[i]!r}]={ep.v[i]} but bus '
                                f'{b!r} has Vn={vn[b]}')
                        break


def parts(tier):
    return [Addressing(tier)]


def run(run, only=None):
    for p in parts(run.tier):
        run.run_part(p, audit=3)
    run.assumptions += ['one reference device set; collate exercised by switching the supported flag on (no shipped model '
                        'uses it)', 'slot names are judged structurally (variable name first, device idx last, model named)']
    rule = ('bounded family of add orders x idx types x collate switch on a real System; bijection + sentinel read-back '
            'through every access path in both addressing phases; non-trivial = every execution (19 devices, ~60 slots)')
    return run.finish(rule)
