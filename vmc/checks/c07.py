"""
C07 - simulated trajectories agree with an independent reference solution.

swing  : a classical machine (GENCLS) against an infinite bus (slack) through three parallel lines, no loads; full
         lattice M x D x x'd x line reactance x loading x switching schedule {none, open L2 at t1, open at t1 and
         reclose at t2} x both methods, each at h in {1/30, 1/60, 1/120}.  Reference: the swing equation integrated
         by scipy solve_ivp (rtol 1e-10) with the network reduced by hand (E' behind x'd from the power-flow point).
         The error must shrink at the method's order when h is halved and be below a bound built from the reference's
         own third (second) derivative at the default step.
linear : small perturbations of every state of stock dynamic cases (basis directions, scaled 1e-4) against the
         matrix exponential of the linearisation T^-1 (fx - fy gy^-1 gx) assembled by the harness from the Jacobians at
         the operating point (not from EIG), for both methods, with halving of the step.
"""

import itertools

import numpy as np

from vmc.core import Outcome, Part
from vmc import systems

TF = 1.0
FN = 60.0


def build_swing(M, D, xd1, x, p, Sn=100.0):
    # M, D, xd1 describe the physical machine on the 100 MVA system base; the data are entered on the machine's own rating
    kb = Sn / 100.0
    ss = systems.new_system()
    ss.add('Bus', dict(idx=1, name='G', Vn=110))
    ss.add('Bus', dict(idx=2, name='INF', Vn=110))
    for k in range(3):
        ss.add('Line', dict(idx=f'L{k + 1}', bus1=1, bus2=2, x=x * (1 + 0.5 * k), r=0.0, Vn1=110, Vn2=110))
    ss.add('Slack', dict(idx='S', bus=2, v0=1.0, a0=0.0, Vn=110))
    ss.add('PV', dict(idx='G1', bus=1, p0=p, v0=1.03, Vn=110))
    ss.add('GENCLS', dict(idx='GEN', bus=1, gen='G1', Vn=110, Sn=Sn, M=M / kb, D=D / kb, xd1=xd1 * kb, ra=0.0, fn=FN))
    for k in range(2):
        ss.add('Toggle', dict(idx=f'T{k}', model='Line', dev='L2', t=-1, u=0))
    for k in range(2):
        ss.add('Toggle', dict(idx=f'U{k}', model='Line', dev='L3', t=-1, u=0))
    ss.setup()
    systems.quiet_tds(ss)
    return ss


def reference(M, D, xd1, x, p, sched, times):
    """Swing equation with piecewise reactance; returns delta(t), omega(t) at `times`, and derivative bounds."""
    from scipy.integrate import solve_ivp
    xl = [x, 1.5 * x, 2.0 * x]

    def xeq(lines_on):
        return 1.0 / sum(1.0 / xl[k] for k in range(3) if lines_on[k])
    # power-flow point: |Vt| = 1.03 at angle th, P = Vt V sin(th)/X
    V, Vt = 1.0, 1.03
    X0 = xeq([1, 1, 1])
    th = np.arcsin(p * X0 / (Vt * V))
    Vtc = Vt * np.exp(1j * th)
    I = (Vtc - V) / (1j * X0)
    E = Vtc + 1j * xd1 * I
    Ep, d0 = abs(E), np.angle(E)
    Pm = (Vtc * np.conj(I)).real
    w0 = 2 * np.pi * FN
    ev_times = sorted(set(e[0] for e in sched))
    breaks = [0.0] + ev_times + [TF]
    state = [1, 1, 1]
    y = np.array([d0, 1.0])
    out_t, out_y = [0.0], [y.copy()]
    d2max = d3max = 0.0
    seg_states = []
    for k in range(len(breaks) - 1):
        a, b = breaks[k], breaks[k + 1]
        if k > 0:
            for e in sched:
                if e[0] == a:
                    ln = e[2] if len(e) > 2 else 1
                    state[ln] = 1 - state[ln]
        Xt = xd1 + xeq(state)

        def f(t, y, Xt=Xt):
            return [w0 * (y[1] - 1.0), (Pm - Ep * V / Xt * np.sin(y[0]) - D * (y[1] - 1.0)) / M]
        if b <= a:
            continue
        te = np.array(sorted(set([tt for tt in times if a < tt <= b] + [b])))
        sol = solve_ivp(f, (a, b), y, t_eval=te, rtol=1e-10, atol=1e-12, method='DOP853')
        for tt, yy in zip(sol.t, sol.y.T):
            out_t.append(float(tt))
            out_y.append(yy.copy())
        y = sol.y[:, -1].copy()
        # derivative bounds of delta on this segment (finite differences of the smooth reference)
        fine = np.linspace(a, b, 400)
        sf = solve_ivp(f, (a, b), out_y[-len(te) - 1] if len(out_y) > len(te) else out_y[0], t_eval=fine, rtol=1e-10, atol=1e-12,
                       method='DOP853')
        dd = np.gradient(sf.y[0], fine)
        d2 = np.gradient(dd, fine)
        d3 = np.gradient(d2, fine)
        d2max = max(d2max, float(np.max(np.abs(d2[5:-5]))) if len(d2) > 12 else 0.0)
        d3max = max(d3max, float(np.max(np.abs(d3[8:-8]))) if len(d3) > 20 else 0.0)
    T = np.array(out_t)
    Y = np.array(out_y)
    d = np.interp(times, T, Y[:, 0])
    w = np.interp(times, T, Y[:, 1])
    return d, w, d2max, d3max, (Ep, d0, Pm)


class Swing(Part):
    name = 'swing'
    chunk = 2
    timeout = 600.0

    def __init__(self, tier='quick'):
        self.tier = tier

    def describe(self, tier):
        return ('M in (4, 8, 13) x D in (0, 2) x xd1 in (0.2, 0.3) x line x in (0.2, 0.5) x P in (0.4, 0.8) x machine rating in (100, 250) MVA (same physical machine entered on its own base) x schedules (none, open at '
                't1 in (0, 0.1, 0.2, 0.35), open at t1 and reclose at t2 from a 4-point lattice, two lines tripped at the same instant) x (trapezoid, backeuler) x h in '
                '(1/30, 1/60, 1/120)' + ('; quick tier: default + all single and pair deviations of the six parameters' if tier == 'quick' else ''))

    SCHEDS = [[], [[0.1, 0]], [[0.2, 0]], [[0.35, 0]], [[0.1, 0], [0.25, 1]], [[0.1, 0], [0.4, 1]], [[0.2, 0], [0.3, 1]], [[0.0, 0]],
              [[0.0, 0], [0.2, 1]],
              # two lines tripped at the same instant (coincident events), one of them reclosed later
              [[0.1, 0, 1], [0.1, 0, 2], [0.3, 1, 1]]]

    def cases(self, tier):
        axes = dict(M=(8.0, 4.0, 13.0), D=(0.0, 2.0), xd1=(0.3, 0.2), x=(0.5, 0.2), p=(0.8, 0.4), Sn=(100.0, 250.0))
        names = list(axes)
        out = []
        for vals in itertools.product(*[axes[k] for k in names]):
            c = dict(zip(names, vals))
            ndev = sum(c[k] != axes[k][0] for k in names)
            if tier == 'quick' and ndev > 2:
                continue
            for si in range(len(self.SCHEDS)):
                for method in ('trapezoid', 'backeuler'):
                    out.append(dict(c, sched=si, method=method))
        return out

    def execute(self, case):
        out = Outcome()
        seen = set()

        def bad(sig, msg):
            if sig not in seen:
                seen.add(sig)
                out.bad(sig, msg)
        sched = self.SCHEDS[case['sched']]
        errs = []
        runs = {}
        try:
            trap = case['method'] == 'trapezoid'
            grid = ((1 / 30, None), (1 / 30, 1e-9), (1 / 60, 1e-9), (1 / 120, 1e-9)) if trap else \
                ((1 / 30, None), (1 / 120, 1e-9), (1 / 240, 1e-9), (1 / 480, 1e-9))
            for h, tol in grid:
                ss = build_swing(case['M'], case['D'], case['xd1'], case['x'], case['p'], case.get('Sn', 100.0))
                if not ss.PFlow.run():
                    out.obs = dict(skipped='power flow failed')
                    out.nontrivial = False
                    return out
                used = {1: 0, 2: 0}
                for e in sched:
                    ln = e[2] if len(e) > 2 else 1
                    k = (0 if ln == 1 else 2) + used[ln]
                    used[ln] += 1
                    ss.Toggle.t.v[k] = e[0]
                    ss.Toggle.u.v[k] = 1
                c = ss.TDS.config
                c.tstep, c.tf, c.criteria = h, TF, 0
                if tol is not None:
                    c.tol = tol          # the order of the method is visible only below the Newton tolerance
                c.method = case['method']
                ss.TDS.set_method(case['method'])
                ok = ss.TDS.run(no_summary=True)
                if not ok:
                    bad('run_failed', f'TDS.run returned False for {case} at h = {h:.5f}')
                    out.obs = dict(failed=True)
                    return out
                t = np.array(ss.dae.ts.t)
                x = np.array(ss.dae.ts.x)
                da, wa = int(ss.GENCLS.delta.a[0]), int(ss.GENCLS.omega.a[0])
                runs[(h, tol)] = (t, x[:, da], x[:, wa])
        except Exception as e:
            import traceback
            tb = traceback.extract_tb(e.__traceback__)
            bad(f'raises:{type(e).__name__}@{tb[-1].name if tb else "?"}', f'{type(e).__name__}: {e}')
            out.obs = dict(exc=type(e).__name__)
            return out
        d2max = d3max = 0.0
        for (h, tol), (t, d, w) in runs.items():
            dr, wr, d2max, d3max, init = reference(case['M'], case['D'], case['xd1'], case['x'], case['p'], sched, list(t))
            errs.append(float(np.max(np.abs(d - dr))))
            if tol is None and abs(d[0] - init[1]) > 1e-6:
                bad('initial_angle_differs', f'initial rotor angle {d[0]!r} vs E\' angle from the power-flow point {init[1]!r}')
        e1, e2, e3, e4 = errs
        trap = case['method'] == 'trapezoid'
        floor = 2e-5          # the +-1e-4 s steps around events put a floor of about 2e-5 rad under the error (measured)
        if sched:
            for a, b, lab, lo in ((e2, e3, 'first halving', 2.8 if trap else 1.5), (e3, e4, 'second halving', 2.8 if trap else 1.7)):
                if b > 5 * floor and a / b < lo:
                    bad(f'order_of_convergence:{case["method"]}', f'{case}: error {a:.3e} -> {b:.3e} when the step is halved ({lab}): ratio '
                        f'{a / b:.2f}, expected about {4 if trap else 2}')
                    break
            h = 1 / 30
            bound = (3.0 * h * h / 12.0 * d3max * TF + floor) if trap else (3.0 * h / 2.0 * d2max * TF + floor)
            bound *= 6.0      # oscillatory error accumulation over one second
            bound += 50 * 1e-4    # default Newton tolerance on the increments, accumulated over the run
            if e1 > bound:
                bad(f'error_above_discretisation_bound:{case["method"]}', f'{case}: max |delta - reference| = {e1:.3e} at h = 1/30, bound '
                    f'{bound:.3e} (from the reference derivatives)')
        else:
            if e1 > 1e-6:
                bad('equilibrium_not_kept', f'{case}: undisturbed machine moved by {e1:.3e}')
        out.obs = dict(errs=[float(f'{e:.3e}') for e in errs], d3max=round(d3max, 3))
        out.transitions = sum(len(r[0]) for r in runs.values())
        out.nontrivial = bool(sched)
        return out


def dense(M):
    from andes.shared import matrix
    return np.array(matrix(M))


class Linear(Part):
    name = 'linear'
    chunk = 2
    timeout = 600.0

    CASES = ['smib/SMIB.json', 'kundur/kundur_full.xlsx', 'kundur/kundur_exdc2_zero_tb.xlsx']
    MORE = ['kundur/kundur_sexs.xlsx', 'ieee14/ieee14_full.xlsx']       # thorough; ieee14_* sit on a limiter kink (TGOV1 4 at VMAX)

    def __init__(self, tier='quick'):
        self.tier = tier

    def describe(self, tier):
        cases = self.CASES + (self.MORE if tier != 'quick' else [])
        return (f'{cases}: every state direction (every 3rd in quick for the large cases) x (trapezoid, backeuler); '
                f'perturbation 1e-4; 0.3 s at h = 1/240 and 1/480 against expm of the harness-assembled linearisation (states with a '
                f'zero time constant eliminated like algebraic variables; operating points on a limiter kink are outside the property)')

    def cases(self, tier):
        out = []
        for c in self.CASES + (self.MORE if tier != 'quick' else []):
            ss = systems.load_case(c)
            systems.quiet_tds(ss)
            ss.Toggle.u.v[:] = 0 if ss.Toggle.n else 0
            ss.PFlow.run()
            ss.TDS.init()
            n = ss.dae.n
            step = 1 if (tier != 'quick' or n <= 8) else 3
            for k in range(0, n, step):
                for method in ('trapezoid', 'backeuler'):
                    out.append(dict(case=c, k=k, method=method))
        return out

    def execute(self, case):
        from scipy.linalg import expm
        out = Outcome()
        seen = set()

        def bad(sig, msg):
            if sig not in seen:
                seen.add(sig)
                out.bad(sig, msg)
        errs = []
        name = None
        try:
            for h in (1 / 240, 1 / 480):
                ss = systems.load_case(case['case'], setup=False)
                for m in ('Toggle', 'Fault', 'Alter'):
                    mdl = getattr(ss, m)
                    if mdl.n:
                        mdl.u.v = [0] * mdl.n
                ss.setup()
                systems.quiet_tds(ss)
                ss.PFlow.run()
                tds = ss.TDS
                tds.init()
                dae = ss.dae
                if tds.test_ok is not True:
                    out.obs = dict(skipped='initialisation failed')
                    out.nontrivial = False
                    return out
                ss.j_update(ss.exist.pflow_tds)
                fx, fy, gx, gy = (dense(M) for M in (dae.fx, dae.fy, dae.gx, dae.gy))
                T = np.array(dae.Tf, dtype=float)
                # states with a zero time constant are algebraic: eliminate them together with y (Schur complement)
                # states held at a limit by an anti-windup limiter at the operating point do not move at all: the model keeps
                # their equation out of the step (it is not in the Jacobian), so they are constants of the linear reference
                pegged = set()
                for aw in ss.antiwindups:
                    for key, _, _ in getattr(aw, 'x_set', []):
                        pegged |= {int(a) for a in np.atleast_1d(key)}
                zs = np.array([i for i in np.flatnonzero(T == 0) if i not in pegged], dtype=int)
                ks = np.array([i for i in np.flatnonzero(T != 0) if i not in pegged], dtype=int)
                if pegged:
                    # the operating point sits on a limiter kink (a state held at its limit is released or not depending on the
                    # sign of the perturbation): no linearisation exists there, the property's reference is undefined
                    out.obs = dict(skipped='operating point on a limiter kink', pegged=[str(dae.x_name[i]) for i in sorted(pegged)])
                    out.nontrivial = False
                    return out
                A0 = fx - fy @ np.linalg.solve(gy, gx)
                if len(zs):
                    if case['k'] in set(int(q) for q in zs):
                        out.obs = dict(skipped='direction is a zero-time-constant (algebraic) state')
                        out.nontrivial = False
                        return out
                    A0 = A0[np.ix_(ks, ks)] - A0[np.ix_(ks, zs)] @ np.linalg.solve(A0[np.ix_(zs, zs)], A0[np.ix_(zs, ks)])
                else:
                    A0 = A0[np.ix_(ks, ks)]
                As = A0 / T[ks][:, None]
                x_eq = dae.x.copy()
                k = case['k']
                name = dae.x_name[k]
                dx0 = np.zeros(dae.n)
                dx0[k] = 1e-4 * max(1.0, abs(x_eq[k]))
                dae.x[k] += dx0[k]
                ss.vars_to_models()
                c = tds.config
                c.tstep, c.tf, c.criteria = h, 0.3, 0
                c.tol = 1e-9
                c.method = case['method']
                tds.set_method(case['method'])
                ok = tds.run(no_summary=True)
                if not ok:
                    bad('run_failed', f'{case}: perturbed run returned False')
                    return out
                t = np.array(dae.ts.t)
                X = np.array(dae.ts.x) - x_eq[None, :]
                # compare at the end and at mid time (first stored point holds the perturbation after one pseudo-step)
                worst = 0.0
                for tt in (0.15, 0.3):
                    i = int(np.argmin(np.abs(t - tt)))
                    ref = expm(As * t[i]) @ dx0[ks]
                    scale = max(float(np.max(np.abs(ref))), float(np.max(np.abs(dx0))))
                    worst = max(worst, float(np.max(np.abs(X[i][ks] - ref))) / scale)
                errs.append(worst)
        except Exception as e:
            import traceback
            tb = traceback.extract_tb(e.__traceback__)
            bad(f'raises:{type(e).__name__}@{tb[-1].name if tb else "?"}', f'{type(e).__name__}: {e}')
            out.obs = dict(exc=type(e).__name__)
            return out
        e1, e2 = errs
        lim = 0.05 if case['method'] == 'trapezoid' else 0.5
        if e1 > lim and e2 > 0.6 * e1:
            bad(f'small_signal_response_differs:{case["method"]}', f'{case["case"]}: perturbation of {name}: relative deviation from '
                f'expm(As t) dx0 is {e1:.3e} at h = 1/240 and {e2:.3e} at h = 1/480 (no convergence)')
        out.obs = dict(state=name, errs=[float(f'{e:.3e}') for e in errs])
        out.transitions = 2
        return out


def parts(tier):
    return [Swing(tier), Linear(tier)]


def run(run, only=None):
    for p in parts(run.tier):
        if only and p.name != only:
            continue
        run.run_part(p, audit=2)
    run.assumptions += ['reference swing equation: E\' behind x\'d from the power-flow point, lossless network reduced by hand, '
                        'solve_ivp DOP853 rtol 1e-10', 'error bound at h = 1/30: 18 x (h^2/12) max|delta\'\'\'| (trapezoid) or 9 x h max|delta\'\'| '
                        '(backward Euler) over one second, plus 2e-6 for the eps-steps around events',
                        'small-signal benchmark: deviation judged only if it does not shrink when the step is halved']
    rule = ('parameter lattice x switching schedules x methods x three step sizes against the integrated swing equation; every '
            'state direction of stock cases against the matrix exponential; non-trivial = disturbed run')
    return run.finish(rule)
