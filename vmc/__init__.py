"""vmc - bounded exhaustive exploration harness for ANDES (see /verif/DESIGN.md)."""
