"""
Entry point:  /venv/bin/python -m vmc.check <ID> [--tier quick|thorough] [--replay file] [--part name]

Exit 0: property held on everything explored (known findings are printed as KNOWN-FINDING lines).
Exit 1: at least one violation not listed in known_findings.json (VIOLATION lines printed).
Exit 2: the harness itself failed (never a verdict about the repository).
"""

import argparse
import importlib
import json
import os
import sys

from vmc import env


def main():
    ap = argparse.ArgumentParser()
    ap.add_argument('prop')
    ap.add_argument('--tier', default=os.environ.get('VERIF_TIER', 'quick'), choices=['quick', 'thorough'])
    ap.add_argument('--replay', default=None)
    ap.add_argument('--part', default=None, help='run only this part (debugging; evidence still written)')
    args = ap.parse_args()
    env.bootstrap()          # re-executes unless already isolated

    seed = int(os.environ.get('VERIF_SEED', '0') or 0)
    prop = args.prop.upper()
    mod = importlib.import_module(f'vmc.checks.{prop.lower()}')
    if args.replay:
        sys.exit(replay(mod, prop, args.replay))
    from vmc.core import CheckRun
    run = CheckRun(prop, args.tier, seed, level=getattr(mod, 'LEVEL', 'model_checking'))
    rc = mod.run(run, only=args.part)
    sys.exit(rc)


def replay(mod, prop, path):
    """Re-run exactly the recorded execution, without the explorer."""
    from vmc.core import load_known, match_known
    with open(path) as f:
        rec = json.load(f)
    part = [p for p in mod.parts(rec.get('tier', 'quick')) if p.name == rec['part']][0]
    part.init_worker()
    out = part.execute(rec['first']['case'])
    known = load_known()
    bad = 0
    print(json.dumps(dict(case=rec['first']['case']))[:2000])
    for v in out.violations:
        tag = 'KNOWN-FINDING' if match_known(known, prop, part.name, v['sig']) else 'VIOLATION'
        if tag == 'VIOLATION':
            bad += 1
        print(f'{tag} property={prop} part={part.name} sig={v["sig"]}: {v["msg"]}')
    if not out.violations:
        print(f'replay: no violation (property={prop})')
    return 1 if bad else 0


if __name__ == '__main__':
    main()
