"""
Small systems built programmatically through the public ``System.add`` API,
and loaders for stock cases.  Used as fork checkpoints by the checks.
"""

import os


ALTER_METHODS = ['+', '+', '+', '*', '*', '=', '=']


def andes_mod():
    from vmc import env
    return env.quiet_andes()


def new_system(**kw):
    andes = andes_mod()
    kw.setdefault('no_output', True)
    kw.setdefault('default_config', True)
    return andes.System(**kw)


def load_case(rel, setup=True, **kw):
    andes = andes_mod()
    kw.setdefault('no_output', True)
    kw.setdefault('default_config', True)
    path = rel if os.path.isabs(rel) else andes.get_case(rel)
    return andes.load(path, setup=setup, **kw)


def quiet_tds(ss):
    ss.TDS.config.no_tqdm = 1
    return ss


def static3(n_toggle=0, n_alter=0, n_fault=0, setup=True):
    """
    Two buses, three parallel lines, slack + PQ.  No differential state.
    Pre-declared (disabled) event devices whose times/targets are set per execution.
    """
    ss = new_system()
    ss.add('Bus', dict(idx=1, name='B1', Vn=110))
    ss.add('Bus', dict(idx=2, name='B2', Vn=110))
    for k, x in enumerate((0.2, 0.3, 0.4), start=1):
        ss.add('Line', dict(idx=f'L{k}', bus1=1, bus2=2, x=x, r=0.01, Vn1=110, Vn2=110))
    ss.add('Slack', dict(idx='S', bus=1, v0=1.0, a0=0.0, Vn=110))
    ss.add('PQ', dict(idx='P1', bus=2, p0=0.5, q0=0.1, Vn=110))
    ss.add('PQ', dict(idx='P2', bus=2, p0=0.1, q0=0.05, Vn=110))
    _events(ss, n_toggle, n_alter, n_fault, fault_bus=2)
    if setup:
        ss.setup()
    return quiet_tds(ss)


def smib(n_toggle=0, n_alter=0, n_fault=0, setup=True, M=8.0, D=1.0, xd1=0.3, x=0.4, p=0.6):
    """
    Classical machine (bus 1) against an infinite bus (slack, bus 2) through two
    parallel lines + a third line to a load bus.
    """
    ss = new_system()
    ss.add('Bus', dict(idx=1, name='G', Vn=110))
    ss.add('Bus', dict(idx=2, name='INF', Vn=110))
    ss.add('Line', dict(idx='L1', bus1=1, bus2=2, x=x, r=0.0, Vn1=110, Vn2=110))
    ss.add('Line', dict(idx='L2', bus1=1, bus2=2, x=x, r=0.0, Vn1=110, Vn2=110))
    ss.add('Line', dict(idx='L3', bus1=1, bus2=2, x=2 * x, r=0.0, Vn1=110, Vn2=110))
    ss.add('Slack', dict(idx='S', bus=2, v0=1.0, a0=0.0, Vn=110))
    ss.add('PV', dict(idx='G1', bus=1, p0=p, v0=1.02, Vn=110))
    ss.add('PQ', dict(idx='P1', bus=1, p0=0.1, q0=0.02, Vn=110))
    ss.add('PQ', dict(idx='P2', bus=2, p0=0.1, q0=0.05, Vn=110))
    ss.add('GENCLS', dict(idx='GEN', bus=1, gen='G1', Vn=110, M=M, D=D, xd1=xd1, ra=0.0))
    _events(ss, n_toggle, n_alter, n_fault, fault_bus=1)
    if setup:
        ss.setup()
    return quiet_tds(ss)


def _events(ss, n_toggle, n_alter, n_fault, fault_bus):
    for k in range(n_toggle):
        ss.add('Toggle', dict(idx=f'T{k}', model='Line', dev='L3', t=-1, u=0))
    for k in range(n_alter):
        # the method of slot k is fixed at declaration (the Switcher flags are computed once)
        ss.add('Alter', dict(idx=f'A{k}', model='PQ', dev='P1', src='Ppf', attr='v',
                             method=ALTER_METHODS[k % len(ALTER_METHODS)], amount=0.0, t=-1, u=0))
    for k in range(n_fault):
        ss.add('Fault', dict(idx=f'F{k}', bus=fault_bus, tf=-1, tc=-1, xf=0.05, u=0))
